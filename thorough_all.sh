#!/bin/bash
# exploration helper for `vp run --with-repo`: thorough tier of every property on snapshots
export VERIF_REPO=${VP_RUN_REPO:-/repo}
for p in $(./check --list); do
  echo "=== $p $(date +%T)"; ./check $p thorough 2>&1 | tail -4 | cut -c1-600
done
