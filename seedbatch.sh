#!/bin/bash
# usage: seedbatch.sh <id> <name> [extra checks...]: verify a sub-agent's change, store it, drop its worktree, run the check(s) against it.
id=$1; name=$2; shift 2
/verif/seedverify.sh $id $name 2>&1 | grep -E "^(== |demo|DEMO|ok|FAIL|stored|---)" | cut -c1-200
git -C /repo worktree remove --force /tmp/seed/$id 2>/dev/null
/verif/seedrun.sh $name quick $id "$@" 2>&1 | cut -c1-300
