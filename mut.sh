#!/bin/bash
# usage: mut.sh <file-in-repo> <python-expr old> <python-expr new> -- <command...>
# Applies a single textual mutation to /repo, runs the command, restores /repo.
f=$1; old=$2; new=$3; shift 4
cd /repo || exit 9
if ! git diff --quiet; then echo "repo dirty"; exit 9; fi
python3 - "$f" "$old" "$new" <<'PY'
import sys
f,old,new=sys.argv[1:4]
s=open(f).read()
if s.count(old)!=1:
    print("MUTATION SITE COUNT", s.count(old)); sys.exit(3)
open(f,'w').write(s.replace(old,new))
PY
rc=$?
if [ $rc -ne 0 ]; then git checkout -- .; exit $rc; fi
(cd /verif && "$@")
rc=$?
cd /repo && git checkout -- .; git -C /verif checkout -- evidence 2>/dev/null
echo "mutant exit=$rc"
