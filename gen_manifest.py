#!/usr/bin/env python3
"""Regenerates MANIFEST.json from checks.json + manifest_meta.json (kept as
data so the manifest is always valid and in step with the driver)."""
import json, os
V = os.path.dirname(os.path.abspath(__file__))
checks = json.load(open(os.path.join(V, "checks.json")))
meta = json.load(open(os.path.join(V, "manifest_meta.json")))
props = [json.loads(l)["id"] for l in open(os.path.join(V, "properties.jsonl"))]
m = {
 "version": 1,
 "setup_cmd": "./setup.sh",
 "hooks": {
  "guard": "verif",
  "enable": "go build tag: the driver builds the harness (a separate module with replace github.com/cilium/statedb => /repo) with -tags verif, which compiles /repo's verifhook_on.go, internal/verifhook_on.go and export_verif.go",
  "baseline_off_cmd": "cd /repo && go test -mod=mod -json -vet=off -count=1 -timeout 25m ./...",
  "source_commits": meta["hook_commits"],
  "add_only": True
 },
 "engines": meta["engines"],
 "checks": [],
 "notes": meta["notes"],
 "not_applicable": []
}
for pid in props:
    if pid in checks and pid in meta["checks"]:
        c = meta["checks"][pid]
        m["checks"].append({
         "property_id": pid,
         "quick_cmd": "./check %s quick" % pid,
         "thorough_cmd": "./check %s thorough" % pid,
         "evidence_file": "/verif/evidence/%s.json" % pid,
         "replay_cmd_template": "./check --replay {path}",
         "engine": c["engine"],
         "level_claimed": {"category": "exploration", "text": c["text"], "design_ref": c["design_ref"]},
         "level_note": c["note"],
         "technique": c["technique"],
        })
    else:
        m["not_applicable"].append({"property_id": pid, "reason": meta.get("na", {}).get(pid, "check not built yet in this session (planned in DESIGN.md); not claimed until it runs")})
json.dump(m, open(os.path.join(V, "MANIFEST.json"), "w"), indent=1)
print("claimed:", [c["property_id"] for c in m["checks"]])
