#!/bin/bash
# exploration helper for `vp run --with-repo`: thorough tier of the properties named in $PROPS on snapshots
export VERIF_REPO=${VP_RUN_REPO:-/repo}
for p in ${PROPS:-C05 C10 C17 C20}; do
  echo "=== $p $(date +%T)"; ./check $p thorough 2>&1 | tail -4 | cut -c1-600
done
for seed in 2 3 4 5; do
  for p in ${PROPS:-C05 C10 C17 C20}; do
    out=$(VERIF_SEED=$seed ./check $p quick 2>&1 | grep -E "^(VIOLATION|OK|INCONCLUSIVE|KNOWN|  )" | head -3 | cut -c1-500)
    echo "seed=$seed $out"
  done
done
