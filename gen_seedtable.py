#!/usr/bin/env python3
"""Rewrites the seeded-change table of DESIGN.md (between the SEEDTABLE markers)
from seeded/*/meta.json (summary + the verdicts recorded by seedmatrix.sh)."""
import json, glob, os, re
rows = []
for d in sorted(glob.glob('/verif/seeded/*/')):
    mp = os.path.join(d, 'meta.json')
    if not os.path.exists(mp):
        continue
    m = json.load(open(mp))
    s = re.sub(r'\s+', ' ', m.get('summary', '')).replace('|', '/')
    if len(s) > 230:
        s = s[:230].rsplit(' ', 1)[0] + ' ...'
    v = m.get('checks_run', {}).get('quick', '')
    rows.append('| `%s` | %s | %s | %s |' % (os.path.basename(d.rstrip('/')), m['property'], s, v))
tbl = ['| seeded change | property | what was changed | quick-tier verdicts (check:verdict) |', '|---|---|---|---|'] + rows
p = '/verif/DESIGN.md'
t = open(p).read()
a, b = '<!-- SEEDTABLE-BEGIN -->', '<!-- SEEDTABLE-END -->'
i, j = t.index(a), t.index(b)
t = t[:i + len(a)] + '\n' + '\n'.join(tbl) + '\n' + t[j:]
open(p, 'w').write(t)
print(len(rows), 'rows')
