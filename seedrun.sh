#!/bin/bash
# usage: seedrun.sh <name> <tier> <check ids...>   applies /verif/seeded/<name>/patch.diff to /repo, runs checks, restores.
name=$1; tier=$2; shift 2
cd /repo || exit 9
if ! git diff --quiet; then echo "repo dirty"; exit 9; fi
if ! git apply /verif/seeded/$name/patch.diff; then echo "PATCH DOES NOT APPLY to current /repo HEAD"; exit 8; fi
cd /verif
rm -rf /tmp/ev.seedrun; cp -r evidence /tmp/ev.seedrun
for c in "$@"; do echo "--- $c $tier against $name"; ./check $c $tier 2>&1 | grep -E "^(VIOLATION|OK|INCONCLUSIVE|KNOWN)|^  " | head -4 | cut -c1-400; done
cd /repo && git checkout -- . && git status --short; rm -rf /verif/evidence; mv /tmp/ev.seedrun /verif/evidence
