//go:build verif

package tbubble

import (
	"context"
	"fmt"
	"sync"
	"testing"
	"time"

	"github.com/cilium/statedb"
	"pgregory.net/rapid"

	"verifharness/vk"
)

// Concurrent use of one WatchSet: several goroutines call Wait on the same set
// while members close. A goroutine blocked on the set's mutex is not "durably
// blocked" for synctest, so this runs in real time; every assertion is
// independent of timing and interleaving:
//   - every channel a Wait call returns is a member and is closed,
//   - no member is returned by two calls,
//   - afterwards Has(c) is true exactly for the members no call returned.

type CCase struct {
	CloseUs  []int `json:"closeUs"`  // per member: microseconds until it closes, -1 never
	Waiters  int   `json:"waiters"`  // goroutines calling Wait
	Calls    int   `json:"calls"`    // Wait calls per goroutine
	SettleUs int   `json:"settleUs"` // settle time of every call
}

func runConcurrent(c CCase) (classes []string, nontrivial bool, err error) {
	members := make([]chan struct{}, len(c.CloseUs))
	idx := map[<-chan struct{}]int{}
	ws := statedb.NewWatchSet()
	for i := range members {
		members[i] = make(chan struct{})
		idx[members[i]] = i
		ws.Add(members[i])
	}
	var closers sync.WaitGroup
	for i, us := range c.CloseUs {
		if us < 0 {
			continue
		}
		closers.Add(1)
		go func() {
			defer closers.Done()
			time.Sleep(time.Duration(us) * time.Microsecond)
			close(members[i])
		}()
	}
	var (
		mu         sync.Mutex
		returnedBy = map[int]string{}
		viol       []string
		overlapped bool
		inWait     int
	)
	var waiters sync.WaitGroup
	for w := 0; w < c.Waiters; w++ {
		waiters.Add(1)
		go func() {
			defer waiters.Done()
			for call := 0; call < c.Calls; call++ {
				ctx, cancel := context.WithTimeout(context.Background(), 15*time.Millisecond)
				mu.Lock()
				inWait++
				if inWait > 1 {
					overlapped = true
				}
				mu.Unlock()
				got, werr := ws.Wait(ctx, time.Duration(c.SettleUs)*time.Microsecond)
				cancel()
				who := fmt.Sprintf("call %d of waiter %d", call, w)
				mu.Lock()
				inWait--
				for _, ch := range got {
					i, ok := idx[ch]
					if !ok {
						viol = append(viol, fmt.Sprintf("%s returned a channel that was never added", who))
						continue
					}
					select {
					case <-ch:
					default:
						viol = append(viol, fmt.Sprintf("%s returned member %d, which is not closed", who, i))
					}
					if prev, dup := returnedBy[i]; dup {
						viol = append(viol, fmt.Sprintf("%s returned member %d, which %s had already returned (and removed)", who, i, prev))
					}
					returnedBy[i] = who
				}
				if len(got) > 0 && werr != nil && ctx.Err() == nil {
					viol = append(viol, fmt.Sprintf("%s returned channels together with the error %v", who, werr))
				}
				mu.Unlock()
				if werr != nil {
					return
				}
			}
		}()
	}
	waiters.Wait()
	closers.Wait()
	for i, ch := range members {
		_, ret := returnedBy[i]
		if has := ws.Has(ch); has == ret {
			if ret {
				viol = append(viol, fmt.Sprintf("member %d was returned by %s but is still in the set", i, returnedBy[i]))
			} else {
				viol = append(viol, fmt.Sprintf("member %d (closes after %d us) was returned by no call but is no longer in the set", i, c.CloseUs[i]))
			}
		}
	}
	if overlapped {
		classes = append(classes, "two_calls_in_Wait_at_once")
	}
	if len(returnedBy) > 0 {
		classes = append(classes, "members_returned")
	}
	if len(viol) > 0 {
		return classes, false, fmt.Errorf("%d waiters x %d calls on one WatchSet of %d members: %s (and %d more)", c.Waiters, c.Calls, len(members), viol[0], len(viol)-1)
	}
	return classes, overlapped && len(returnedBy) > 0, nil
}

const ruleC20Conc = "2-3 goroutines call Wait (1-2 calls each, 15 ms context) on one WatchSet of 2-64 members that close after 0-3000 microseconds or never; real time, assertions independent of timing: every returned channel is a closed member, no member is returned twice, afterwards Has is true exactly for the members no call returned. Non-trivial = two calls were inside Wait at once and at least one member was returned; distinct by case encoding."

func TestC20ConcurrentWaiters(t *testing.T) {
	const test = "TestC20ConcurrentWaiters"
	var c CCase
	if vk.Replaying() {
		if vk.Replay("C20", test, &c) {
			for i := 0; i < 20; i++ {
				if _, _, err := runConcurrent(c); err != nil {
					vk.Fail(t, "C20", test, c, "concurrent-waiters", "%v", err)
				}
			}
		}
		return
	}
	rec := vk.NewRecorder("C20", test, ruleC20Conc)
	defer rec.Flush()
	rapid.Check(t, func(rt *rapid.T) {
		c := CCase{
			CloseUs:  rapid.SliceOfN(rapid.SampledFrom([]int{-1, 0, 0, 50, 200, 500, 1000, 3000}), 2, 64).Draw(rt, "closeUs"),
			Waiters:  rapid.IntRange(2, 3).Draw(rt, "waiters"),
			Calls:    rapid.IntRange(1, 2).Draw(rt, "calls"),
			SettleUs: rapid.SampledFrom([]int{0, 100, 1000}).Draw(rt, "settleUs"),
		}
		classes, nt, err := runConcurrent(c)
		rec.Case(c, nt, classes...)
		if err != nil {
			vk.Fail(rt, "C20", test, c, "concurrent-waiters", "%v", err)
		}
	})
}
