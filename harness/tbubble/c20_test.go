//go:build verif

// Package tbubble holds the virtual-time checks that need nothing but a
// synctest bubble: C20 (WatchSet.Wait).
package tbubble

import (
	"slices"
	"context"
	"fmt"
	"sort"
	"testing"
	"testing/synctest"
	"time"

	"github.com/cilium/statedb"
	"pgregory.net/rapid"

	"verifharness/vk"
)

// Case: times are virtual milliseconds after the start; -1 = never.
type Case struct {
	Members    []int `json:"members"`    // close time of each member channel (0 = closed before the first Wait)
	NonMembers []int `json:"nonMembers"` // close time of channels never added
	Settle     []int `json:"settle"`     // settle time of each Wait call (1..2 calls)
	Cancel     []int `json:"cancel"`     // context cancellation time of each call, relative to that call's start; -1 never
	AddLate    []int `json:"addLate"`    // members (indexes) added only before the second call
	ByMerge    bool  `json:"byMerge,omitempty"` // the late members arrive through Merge(other set) instead of Add
	Deadline   bool  `json:"deadline,omitempty"` // the context ends through a deadline (WithTimeout) instead of a cancel call
}

type callObs struct {
	start, ret time.Duration
	returned   []int // member indexes; -1-k for non-member k; -100 unknown channel
	err        error
	ctxErr     error
}

type result struct {
	err        error
	sig        string
	nontrivial bool
	classes    []string
}

func run(t *testing.T, c Case) (res result) {
	synctest.Test(t, func(*testing.T) {
		res = runInBubble(c)
	})
	return
}

func runInBubble(c Case) (res result) {
	// whatever the outcome: let the closer/canceller goroutines finish before
	// the bubble ends (a bubble must not end with blocked goroutines)
	defer func() {
		time.Sleep(300 * time.Millisecond)
		synctest.Wait()
	}()
	fail := func(sig, format string, args ...any) result {
		res.sig = sig
		res.err = fmt.Errorf(format, args...)
		return res
	}
	start := time.Now()
	members := make([]chan struct{}, len(c.Members))
	idx := map[<-chan struct{}]int{}
	for i := range members {
		members[i] = make(chan struct{})
		idx[members[i]] = i
	}
	nonMembers := make([]chan struct{}, len(c.NonMembers))
	for i := range nonMembers {
		nonMembers[i] = make(chan struct{})
		idx[nonMembers[i]] = -1 - i
	}
	closeAt := func(ch chan struct{}, at int) {
		switch {
		case at < 0:
		case at == 0:
			close(ch)
		default:
			go func() {
				time.Sleep(time.Duration(at) * time.Millisecond)
				close(ch)
			}()
		}
	}
	for i, at := range c.Members {
		closeAt(members[i], at)
	}
	for i, at := range c.NonMembers {
		closeAt(nonMembers[i], at)
	}
	type earlierResult struct {
		call      int
		got, copy []<-chan struct{}
	}
	var earlier []earlierResult
	late := map[int]bool{}
	for _, i := range c.AddLate {
		if i >= 0 && i < len(members) {
			late[i] = true
		}
	}
	ws := statedb.NewWatchSet()
	inSet := map[int]bool{}
	for i, ch := range members {
		if !late[i] {
			ws.Add(ch)
			inSet[i] = true
		}
	}
	closedBy := func(i int, at time.Duration) bool {
		return c.Members[i] >= 0 && time.Duration(c.Members[i])*time.Millisecond <= at
	}
	for call := range c.Settle {
		if call == 1 {
			other := statedb.NewWatchSet()
			for i := range late {
				if c.ByMerge {
					other.Add(members[i])
				} else {
					ws.Add(members[i])
				}
				inSet[i] = true
			}
			if c.ByMerge {
				ws.Merge(other)
				res.classes = append(res.classes, "late_members_by_merge")
			}
		}
		settle := time.Duration(c.Settle[call]) * time.Millisecond
		cancelAt := -1
		if call < len(c.Cancel) {
			cancelAt = c.Cancel[call]
		}
		callStart := time.Since(start)
		// liveness guard: a call that can never return would deadlock the bubble
		willReturn := cancelAt >= 0
		for i := range inSet {
			if inSet[i] && c.Members[i] >= 0 {
				willReturn = true
			}
		}
		if !willReturn {
			cancelAt = 100
		}
		ctx, cancel := context.WithCancel(context.Background())
		var cancelAbs time.Duration = -1
		if cancelAt > 0 && c.Deadline {
			// the same end of the context, announced up front as a deadline
			cancel()
			ctx, cancel = context.WithTimeout(context.Background(), time.Duration(cancelAt)*time.Millisecond)
			cancelAbs = callStart + time.Duration(cancelAt)*time.Millisecond
			res.classes = append(res.classes, "context_with_deadline")
		} else if cancelAt >= 0 {
			cancelAbs = callStart + time.Duration(cancelAt)*time.Millisecond
			if cancelAt == 0 {
				cancel()
			} else {
				go func() {
					time.Sleep(time.Duration(cancelAt) * time.Millisecond)
					cancel()
				}()
			}
		}
		// watchdog: a call that misses every close must not deadlock the bubble
		// (it then returns empty although the context "never" ends: a violation below)
		returned := make(chan struct{})
		go func() {
			select {
			case <-time.After(60 * time.Second):
				cancel()
			case <-returned:
			}
		}()
		chans, err := ws.Wait(ctx, settle)
		ret := time.Since(start)
		close(returned)
		// results of earlier calls belong to the caller: a later Wait must not change them
		for _, e := range earlier {
			if !slices.Equal(e.got, e.copy) {
				return fail("earlier-result-changed", "the slice returned by call %d changed during call %d", e.call, call)
			}
		}
		earlier = append(earlier, earlierResult{call: call, got: chans, copy: slices.Clone(chans)})
		ctxErr := ctx.Err()
		cancel()
		// ---- oracle
		var firstClose time.Duration = -1
		for i := range members {
			if inSet[i] && c.Members[i] >= 0 {
				at := time.Duration(c.Members[i]) * time.Millisecond
				if at < callStart {
					at = callStart
				}
				if firstClose < 0 || at < firstClose {
					firstClose = at
				}
			}
		}
		seen := map[int]bool{}
		for _, ch := range chans {
			i, known := idx[ch]
			if !known || i < 0 {
				return fail("returned-non-member", "call %d returned a channel that was never added to the set", call)
			}
			if !inSet[i] {
				return fail("returned-non-member", "call %d returned member %d which is not in the set any more", call, i)
			}
			if seen[i] {
				return fail("returned-twice", "call %d returned member %d twice", call, i)
			}
			seen[i] = true
			if !closedBy(i, ret) {
				return fail("returned-open", "call %d returned member %d at %v although it closes at %dms", call, i, ret, c.Members[i])
			}
		}
		// membership afterwards
		for i := range members {
			want := inSet[i] && !seen[i]
			if got := ws.Has(members[i]); got != want {
				return fail("membership", "after call %d Has(member %d)=%v, want %v (in set before: %v, returned: %v)", call, i, got, want, inSet[i], seen[i])
			}
		}
		for k := range nonMembers {
			if ws.Has(nonMembers[k]) {
				return fail("membership", "after call %d the set contains a channel that was never added", call)
			}
		}
		// timing and error
		tieCancel := cancelAbs >= 0 && firstClose >= 0 && cancelAbs == firstClose
		if len(chans) == 0 {
			if cancelAbs < 0 {
				return fail("empty-result", "call %d returned no channel although the context was never cancelled", call)
			}
			if err == nil {
				return fail("empty-result", "call %d returned no channel and no error", call)
			}
			if ret != cancelAbs {
				return fail("timing", "call %d returned empty at %v, the context ends at %v", call, ret, cancelAbs)
			}
			if firstClose >= 0 && firstClose < cancelAbs {
				return fail("missed-close", "call %d returned empty at the cancellation instant %v although a member was closed since %v", call, cancelAbs, firstClose)
			}
			if err != ctxErr {
				return fail("error", "call %d returned error %v, the context's error is %v", call, err, ctxErr)
			}
		} else {
			if firstClose < 0 || ret < firstClose {
				return fail("timing", "call %d returned channels at %v before any member was closed (first close %v)", call, ret, firstClose)
			}
			if ret > firstClose+settle {
				return fail("timing", "call %d returned at %v, later than first close %v + settle %v", call, ret, firstClose, settle)
			}
			if err != nil && (cancelAbs < 0 || ret < cancelAbs) {
				return fail("error", "call %d returned %d channels with error %v before the context ended", call, len(chans), err)
			}
			if err != nil && err != ctxErr {
				return fail("error", "call %d returned error %v, the context's error is %v", call, err, ctxErr)
			}
		}
		_ = tieCancel
		// classification
		for i := range members {
			if inSet[i] && c.Members[i] >= 0 {
				at := time.Duration(c.Members[i]) * time.Millisecond
				if firstClose >= 0 && at > firstClose && at < firstClose+settle {
					res.nontrivial = true
					res.classes = append(res.classes, "close_inside_settle_window")
				}
			}
		}
		if cancelAbs >= 0 && firstClose >= 0 && cancelAbs > firstClose && cancelAbs < firstClose+settle {
			res.nontrivial = true
			res.classes = append(res.classes, "cancel_during_settle")
		}
		if len(chans) == 0 {
			res.classes = append(res.classes, "returned_on_cancel")
		} else {
			res.classes = append(res.classes, fmt.Sprintf("returned_%d", min(len(chans), 3)))
		}
		if call == 1 {
			res.classes = append(res.classes, "second_call")
		}
		for i := range seen {
			delete(inSet, i)
		}
	}
	sort.Strings(res.classes)
	return res
}

func genCase(t *rapid.T) Case {
	at := rapid.OneOf(rapid.Just(-1), rapid.Just(0), rapid.IntRange(1, 60), rapid.SampledFrom([]int{5, 10, 10, 20}))
	c := Case{
		Members:    rapid.SliceOfN(at, 0, 6).Draw(t, "members"),
		NonMembers: rapid.SliceOfN(at, 0, 2).Draw(t, "nonMembers"),
	}
	calls := rapid.IntRange(1, 2).Draw(t, "calls")
	for i := 0; i < calls; i++ {
		c.Settle = append(c.Settle, rapid.SampledFrom([]int{0, 0, 1, 5, 10, 20, 50}).Draw(t, "settle"))
		c.Cancel = append(c.Cancel, rapid.OneOf(rapid.Just(-1), rapid.Just(-1), rapid.IntRange(0, 70), rapid.SampledFrom([]int{5, 10, 15, 20})).Draw(t, "cancel"))
	}
	if calls == 2 && len(c.Members) > 0 {
		c.AddLate = rapid.SliceOfN(rapid.IntRange(0, len(c.Members)-1), 0, 2).Draw(t, "late")
		c.ByMerge = rapid.Bool().Draw(t, "byMerge")
	}
	c.Deadline = rapid.IntRange(0, 2).Draw(t, "deadline") == 0
	return c
}

const rule = "0-6 member channels and 0-2 channels never added, each closed before the call, at a virtual instant (1..60 ms) or never; settle time 0..50 ms; context cancelled at a virtual instant or never; one or two consecutive Wait calls (members may be added between them); everything runs in a synctest bubble so return instants are exact. Oracle: returned channels are members of the set and closed at the return instant, no duplicates, Has() afterwards is true exactly for members not returned, the return instant lies in [first member close, first close + settle] or is the cancellation instant, an empty result comes only at the cancellation instant with the context's error and only if no member was closed earlier, a non-empty result before cancellation carries no error. Non-trivial = a member closes strictly inside the settle window or the context ends during settling; distinct by case encoding."

func TestC20WatchSet(t *testing.T) {
	const test = "TestC20WatchSet"
	var c Case
	if vk.Replaying() {
		if vk.Replay("C20", test, &c) {
			if res := run(t, c); res.err != nil {
				vk.Fail(t, "C20", test, c, res.sig, "%v", res.err)
			}
		}
		return
	}
	rec := vk.NewRecorder("C20", test, rule)
	defer rec.Flush()
	rapid.Check(t, func(rt *rapid.T) {
		c := genCase(rt)
		res := run(t, c)
		rec.Case(c, res.nontrivial, res.classes...)
		if res.err != nil {
			vk.Fail(rt, "C20", test, c, res.sig, "%v", res.err)
		}
	})
}
