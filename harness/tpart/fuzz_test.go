//go:build verif

package tpart

import (
	"testing"

	"pgregory.net/rapid"

	"verifharness/vk"
)

// Native coverage-guided fuzz targets (thorough tier): the fuzzer mutates the
// byte stream rapid draws from, so the same generators and oracles are used.

func FuzzC11Tree(f *testing.F) {
	f.Fuzz(rapid.MakeFuzz(func(rt *rapid.T) {
		c := genTreeCase(rt)
		if res := runTree(c, "C11"); res.err != nil {
			vk.Fail(rt, "C11", "TestC11Tree", c, res.sig, "%v", res.err)
		}
	}))
}

func FuzzC12Watch(f *testing.F) {
	f.Fuzz(rapid.MakeFuzz(func(rt *rapid.T) {
		c := genTreeCase(rt)
		if res := runTree(c, "C12"); res.err != nil {
			vk.Fail(rt, "C12", "TestC12Watch", c, res.sig, "%v", res.err)
		}
	}))
}

func FuzzC17MapSet(f *testing.F) {
	f.Fuzz(rapid.MakeFuzz(func(rt *rapid.T) {
		c := genMSCase(rt)
		if res := runMapSet(c); res.err != nil {
			vk.Fail(rt, "C17", "TestC17MapSet", c, res.sig, "%v", res.err)
		}
	}))
}
