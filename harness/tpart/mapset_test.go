//go:build verif

package tpart

import (
	"encoding/json"
	"fmt"
	"sort"
	"strings"
	"testing"

	"github.com/cilium/statedb/part"
	"go.yaml.in/yaml/v3"
	"pgregory.net/rapid"

	"verifharness/vk"
)

// ---------------------------------------------------------------- C17 case

const (
	mSet = iota
	mDelete
	mRead
	mFromMap
	mTxnBegin
	mTxnSet
	mTxnDelete
	mTxnRead
	mTxnCommit
	mTxnDrop
	mEqual
	mRoundTrip
	sNew
	sSet
	sDelete
	sRead
	sUnion
	sDifference
	sEqual
	sRoundTrip
	mDeleteMany // a chain of Map.Delete calls; every intermediate value is checked, the last one joins the pool
	sDeleteMany
	mTxnDeleteMany
	mSetMany // a chain of Map.Set calls over a run of keys (a prefix key first or in between)
	sSetMany
	mTxnLoopWrite // range over MapTxn.All/Prefix/LowerBound while writing through the same MapTxn
)

var msNames = []string{"map.Set", "map.Delete", "map.Read", "FromMap", "txn.Begin", "txn.Set", "txn.Delete", "txn.Read", "txn.Commit", "txn.Drop", "map.Equal", "map.RoundTrip", "set.New", "set.Set", "set.Delete", "set.Read", "set.Union", "set.Difference", "set.Equal", "set.RoundTrip", "map.DeleteMany", "set.DeleteMany", "txn.DeleteMany", "map.SetMany", "set.SetMany", "txn.LoopWrite"}

type MSOp struct {
	K    int      `json:"k"`
	A    int      `json:"a,omitempty"` // member index
	B    int      `json:"b,omitempty"` // second member / txn index
	Key  string   `json:"key,omitempty"`
	Val  int      `json:"val,omitempty"`
	Keys []string `json:"keys,omitempty"`
	Vals []int    `json:"vals,omitempty"`
}

type MSCase struct {
	Ops []MSOp `json:"ops"`
}

func (o MSOp) String() string {
	return fmt.Sprintf("%s(a=%d b=%d key=%q val=%d keys=%q vals=%v)", msNames[o.K], o.A, o.B, o.Key, o.Val, o.Keys, o.Vals)
}

var msKeys = []string{"", "a", "b", "ab", "ba", "abc", "b0", "é", "a b"}

// mval is the map's value type: a struct with a reference-typed and an
// omitempty field, so that a decoder that reuses storage between entries, or
// an aliasing bug between versions, becomes visible. The model keeps the int.
type mval struct {
	N int   `json:"n" yaml:"n"`
	L []int `json:"l,omitempty" yaml:"l,omitempty"`
}

func mv(n int) mval {
	v := mval{N: n}
	for i := 0; i < n%4; i++ {
		v.L = append(v.L, n*10+i)
	}
	return v
}

func (v mval) ok() bool {
	w := mv(v.N)
	if len(w.L) != len(v.L) {
		return false
	}
	for i := range w.L {
		if w.L[i] != v.L[i] {
			return false
		}
	}
	return true
}

type mapMember struct {
	m      part.Map[string, mval]
	want   map[string]int
	origin string
}

type setMember struct {
	s      part.Set[string]
	want   map[string]struct{}
	origin string
}

type openTxn struct {
	txn    part.MapTxn[string, mval]
	want   map[string]int
	origin string
}

type skv struct {
	k string
	v int
}

func sortedMap(m map[string]int) []skv {
	out := make([]skv, 0, len(m))
	for k, v := range m {
		out = append(out, skv{k, v})
	}
	sort.Slice(out, func(i, j int) bool { return out[i].k < out[j].k })
	return out
}

func sortedSet(m map[string]struct{}) []string {
	out := make([]string, 0, len(m))
	for k := range m {
		out = append(out, k)
	}
	sort.Strings(out)
	return out
}

func collectSeq2(seq func(func(string, mval) bool)) []skv {
	var out []skv
	seq(func(k string, v mval) bool {
		n := v.N
		if !v.ok() {
			n = -1000 - v.N // a value whose slice part does not belong to it
		}
		out = append(out, skv{k, n})
		return true
	})
	return out
}

func eqSKV(a, b []skv) bool {
	if len(a) != len(b) {
		return false
	}
	for i := range a {
		if a[i] != b[i] {
			return false
		}
	}
	return true
}

func cloneMap(m map[string]int) map[string]int {
	c := make(map[string]int, len(m))
	for k, v := range m {
		c[k] = v
	}
	return c
}

func cloneSet(m map[string]struct{}) map[string]struct{} {
	c := make(map[string]struct{}, len(m))
	for k := range m {
		c[k] = struct{}{}
	}
	return c
}

// stopEarly consumes seq like a `for range` loop that breaks after `stop`
// elements: it reports an error when the prefix yielded differs from the first
// elements of `full`, or when the sequence calls yield again after it returned
// false (the Go runtime turns that into a panic in a range loop).
func stopEarly(what string, seq func(func(string, mval) bool), full []skv, stop int) error {
	if stop > len(full) {
		stop = len(full)
	}
	if stop == 0 {
		return nil
	}
	var got []skv
	after := 0
	seq(func(k string, v mval) bool {
		if len(got) >= stop {
			after++
			return false
		}
		got = append(got, skv{k, v.N})
		return len(got) < stop
	})
	if after > 0 {
		return fmt.Errorf("%s: the iterator called yield %d more time(s) after yield returned false at element %d (a `break` in a range loop panics)", what, after, stop)
	}
	if len(got) != stop {
		return fmt.Errorf("%s: stopping after %d elements yielded %d", what, stop, len(got))
	}
	for i := range got {
		if got[i].k != full[i].k {
			return fmt.Errorf("%s: partial iteration yielded %v, full iteration %v", what, got, full[:stop])
		}
	}
	return nil
}

func stopEarlyAll(what string, key string, all, prefix, lower func(func(string, mval) bool), stop int) error {
	if err := stopEarly(what+": All()", all, collectSeq2(all), stop); err != nil {
		return err
	}
	if err := stopEarly(what+fmt.Sprintf(": Prefix(%q)", key), prefix, collectSeq2(prefix), stop); err != nil {
		return err
	}
	return stopEarly(what+fmt.Sprintf(": LowerBound(%q)", key), lower, collectSeq2(lower), stop)
}

type mapReader interface {
	Get(string) (mval, bool)
	Len() int
}

func filterSKV(all []skv, keep func(string) bool) []skv {
	var out []skv
	for _, e := range all {
		if keep(e.k) {
			out = append(out, e)
		}
	}
	return out
}

func checkMapReads(what string, getV func(string) (mval, bool), length int,
	all, prefix, lower func() []skv, key string, want map[string]int) error {
	ws := sortedMap(want)
	if length != len(ws) {
		return fmt.Errorf("%s: Len()=%d, model %d", what, length, len(ws))
	}
	get := func(k string) (int, bool) {
		v, ok := getV(k)
		if ok && !v.ok() {
			return -1000 - v.N, true
		}
		return v.N, ok
	}
	for _, k := range msKeys {
		v, ok := get(k)
		wv, wok := want[k]
		if ok != wok || (ok && v != wv) {
			return fmt.Errorf("%s: Get(%q)=%d,%v, model %d,%v", what, k, v, ok, wv, wok)
		}
	}
	if got := all(); !eqSKV(got, ws) {
		return fmt.Errorf("%s: All()=%v, model %v", what, got, ws)
	}
	if got, w := prefix(), filterSKV(ws, func(k string) bool { return strings.HasPrefix(k, key) }); !eqSKV(got, w) {
		return fmt.Errorf("%s: Prefix(%q)=%v, model %v", what, key, got, w)
	}
	if got, w := lower(), filterSKV(ws, func(k string) bool { return k >= key }); !eqSKV(got, w) {
		return fmt.Errorf("%s: LowerBound(%q)=%v, model %v", what, key, got, w)
	}
	return nil
}

func checkMap(what string, m part.Map[string, mval], key string, want map[string]int) error {
	if err := stopEarlyAll(what, key, m.All(), m.Prefix(key), m.LowerBound(key), 1+len(key)%2); err != nil {
		return err
	}
	return checkMapReads(what, m.Get, m.Len(),
		func() []skv { return collectSeq2(m.All()) },
		func() []skv { return collectSeq2(m.Prefix(key)) },
		func() []skv { return collectSeq2(m.LowerBound(key)) },
		key, want)
}

func checkTxn(what string, t part.MapTxn[string, mval], key string, want map[string]int) error {
	return checkMapReads(what, t.Get, t.Len(),
		func() []skv { return collectSeq2(t.All()) },
		func() []skv { return collectSeq2(t.Prefix(key)) },
		func() []skv { return collectSeq2(t.LowerBound(key)) },
		key, want)
}

func checkSet(what string, s part.Set[string], want map[string]struct{}) error {
	ws := sortedSet(want)
	if s.Len() != len(ws) {
		return fmt.Errorf("%s: Len()=%d, model %d", what, s.Len(), len(ws))
	}
	for _, k := range msKeys {
		_, wok := want[k]
		if s.Has(k) != wok {
			return fmt.Errorf("%s: Has(%q)=%v, model %v", what, k, s.Has(k), wok)
		}
	}
	var got []string
	s.All()(func(v string) bool { got = append(got, v); return true })
	if len(got) > 1 {
		n, after := 0, 0
		s.All()(func(v string) bool {
			if n >= 1 {
				after++
				return false
			}
			n++
			return false
		})
		if after > 0 {
			return fmt.Errorf("%s: All() called yield %d more time(s) after yield returned false (a `break` in a range loop over the set panics)", what, after)
		}
	}
	if len(got) != len(ws) {
		return fmt.Errorf("%s: All()=%q, model %q", what, got, ws)
	}
	for i := range got {
		if got[i] != ws[i] {
			return fmt.Errorf("%s: All()=%q, model %q", what, got, ws)
		}
	}
	return nil
}

type msResult struct {
	err        error
	sig        string
	nontrivial bool
	classes    []string
}

func shape(n int) string {
	switch n {
	case 0:
		return "empty"
	case 1:
		return "singleton"
	}
	return "tree"
}

func runMapSet(c MSCase) (res msResult) {
	defer func() {
		if r := recover(); r != nil {
			res.sig = "panic"
			res.err = fmt.Errorf("panic: %v", r)
		}
	}()
	maps := []*mapMember{{want: map[string]int{}, origin: "zero Map"}}
	sets := []*setMember{{want: map[string]struct{}{}, origin: "zero Set"}}
	var txns []*openTxn
	pickM := func(i int) (*mapMember, int) {
		i = ((i % len(maps)) + len(maps)) % len(maps)
		return maps[i], i
	}
	pickS := func(i int) *setMember { return sets[((i%len(sets))+len(sets))%len(sets)] }
	fail := func(sig string, err error) error {
		res.sig = sig
		return err
	}
	note := func(m *mapMember, idx int) {
		res.classes = append(res.classes, "map_op_on_"+shape(len(m.want)))
		if idx != len(maps)-1 {
			res.classes = append(res.classes, "op_on_older_member")
			res.nontrivial = true
		}
		if len(m.want) == 1 {
			res.nontrivial = true
		}
	}
	audit := func(step int) error {
		for i, m := range maps {
			if err := checkMap(fmt.Sprintf("step %d: map member #%d (%s)", step, i, m.origin), m.m, "a", m.want); err != nil {
				return fail("map-persistence", err)
			}
		}
		for i, s := range sets {
			if err := checkSet(fmt.Sprintf("step %d: set member #%d (%s)", step, i, s.origin), s.s, s.want); err != nil {
				return fail("set-persistence", err)
			}
		}
		for i, t := range txns {
			// only point reads here: iterating a transaction freezes its nodes
			// (txnID bump) and would hide in-place mutation of shared state
			if t.txn.Len() != len(t.want) {
				return fail("maptxn", fmt.Errorf("step %d: open map txn #%d (%s): Len()=%d, model %d", step, i, t.origin, t.txn.Len(), len(t.want)))
			}
			for _, k := range msKeys {
				vv, ok := t.txn.Get(k)
				v := vv.N
				if ok && !vv.ok() {
					v = -1000 - vv.N
				}
				wv, wok := t.want[k]
				if ok != wok || (ok && v != wv) {
					return fail("maptxn", fmt.Errorf("step %d: open map txn #%d (%s): Get(%q)=%d,%v, model %d,%v", step, i, t.origin, k, v, ok, wv, wok))
				}
			}
		}
		return nil
	}
	for step, o := range c.Ops {
		var err error
		switch o.K {
		case mSet:
			m, idx := pickM(o.A)
			note(m, idx)
			nm := m.m.Set(o.Key, mv(o.Val))
			w := cloneMap(m.want)
			w[o.Key] = o.Val
			maps = append(maps, &mapMember{nm, w, fmt.Sprintf("Set(%q) at step %d on #%d", o.Key, step, idx)})
		case mDelete:
			m, idx := pickM(o.A)
			note(m, idx)
			nm := m.m.Delete(o.Key)
			w := cloneMap(m.want)
			delete(w, o.Key)
			maps = append(maps, &mapMember{nm, w, fmt.Sprintf("Delete(%q) at step %d on #%d", o.Key, step, idx)})
		case mSetMany:
			m, idx := pickM(o.A)
			note(m, idx)
			nm, w := m.m, cloneMap(m.want)
			for i, k := range o.Keys {
				nm = nm.Set(k, mv(o.Val+i))
				w[k] = o.Val + i
				if e := checkMap(fmt.Sprintf("after Set(%q) in a chain of sets on #%d", k, idx), nm, k, w); e != nil {
					err = fail("map-read", e)
					break
				}
			}
			maps = append(maps, &mapMember{nm, w, fmt.Sprintf("Set chain of %d keys at step %d on #%d", len(o.Keys), step, idx)})
		case sSetMany:
			sm := pickS(o.A)
			ns, w := sm.s, cloneSet(sm.want)
			for _, k := range o.Keys {
				ns = ns.Set(k)
				w[k] = struct{}{}
				if e := checkSet(fmt.Sprintf("after Set(%q) in a chain of sets", k), ns, w); e != nil {
					err = fail("set-read", e)
					break
				}
			}
			sets = append(sets, &setMember{ns, w, fmt.Sprintf("Set.Set chain of %d keys at step %d", len(o.Keys), step)})
		case mDeleteMany:
			m, idx := pickM(o.A)
			note(m, idx)
			nm, w := m.m, cloneMap(m.want)
			for _, k := range o.Keys {
				nm = nm.Delete(k)
				delete(w, k)
				if e := checkMap(fmt.Sprintf("after Delete(%q) in a chain of deletes on #%d", k, idx), nm, k, w); e != nil {
					err = fail("map-read", e)
					break
				}
			}
			maps = append(maps, &mapMember{nm, w, fmt.Sprintf("Delete chain %q at step %d on #%d", o.Keys, step, idx)})
		case sDeleteMany:
			sm := pickS(o.A)
			ns, w := sm.s, cloneSet(sm.want)
			for _, k := range o.Keys {
				ns = ns.Delete(k)
				delete(w, k)
				if e := checkSet(fmt.Sprintf("after Delete(%q) in a chain of deletes", k), ns, w); e != nil {
					err = fail("set-read", e)
					break
				}
			}
			sets = append(sets, &setMember{ns, w, fmt.Sprintf("Set delete chain %q at step %d", o.Keys, step)})
		case mTxnLoopWrite:
			if len(txns) > 0 {
				// the sequence is a snapshot of the transaction at the moment it was
				// obtained: deleting (or setting) keys from inside the loop does not
				// change what the loop visits
				t := txns[o.B%len(txns)]
				all := sortedMap(t.want)
				var want []skv
				var seq func(func(string, mval) bool)
				switch o.Val % 3 {
				case 0:
					seq, want = t.txn.All(), all
				case 1:
					seq, want = t.txn.Prefix(o.Key), filterSKV(all, func(k string) bool { return strings.HasPrefix(k, o.Key) })
				default:
					seq, want = t.txn.LowerBound(o.Key), filterSKV(all, func(k string) bool { return k >= o.Key })
				}
				var got []skv
				seq(func(k string, v mval) bool {
					got = append(got, skv{k, v.N})
					if o.A%2 == 0 {
						t.txn.Delete(k)
						delete(t.want, k)
					} else {
						t.txn.Set(k+"!", mv(o.Val))
						t.want[k+"!"] = o.Val
					}
					return true
				})
				if !eqSKV(got, want) {
					err = fail("maptxn", fmt.Errorf("a loop over MapTxn sequence kind %d (key %q) that writes through the transaction visited %v, the transaction held %v when the sequence was obtained", o.Val%3, o.Key, got, want))
				}
			}
		case mTxnDeleteMany:
			if len(txns) > 0 {
				t := txns[o.B%len(txns)]
				for _, k := range o.Keys {
					_, wok := t.want[k]
					ok := t.txn.Delete(k)
					delete(t.want, k)
					if ok != wok {
						err = fail("maptxn", fmt.Errorf("MapTxn.Delete(%q)=%v, model %v", k, ok, wok))
						break
					}
					if g, gok := t.txn.Get(""); gok != hasKey(t.want, "") || (gok && g.N != t.want[""]) {
						err = fail("maptxn", fmt.Errorf("after MapTxn.Delete(%q): Get(\"\")=%v,%v, model %v,%v", k, g.N, gok, t.want[""], hasKey(t.want, "")))
						break
					}
				}
			}
		case mRead:
			m, idx := pickM(o.A)
			if e := checkMap(fmt.Sprintf("map member #%d (%s)", idx, m.origin), m.m, o.Key, m.want); e != nil {
				err = fail("map-read", e)
			}
		case mFromMap:
			m, idx := pickM(o.A)
			note(m, idx)
			hm := map[string]int{}
			hmv := map[string]mval{}
			for i, k := range o.Keys {
				v := 100 + i
				if i < len(o.Vals) {
					v = o.Vals[i]
				}
				hm[k] = v
				hmv[k] = mv(v)
			}
			nm := part.FromMap(m.m, hmv)
			w := cloneMap(m.want)
			overlap := false
			for k, v := range hm {
				if _, ok := w[k]; ok {
					overlap = true
				}
				w[k] = v // FromMap copies the hash map's values into the map: they win
			}
			if overlap {
				res.classes = append(res.classes, "frommap_overlap")
			}
			maps = append(maps, &mapMember{nm, w, fmt.Sprintf("FromMap(%v) at step %d on #%d", hm, step, idx)})
		case mTxnBegin:
			if len(txns) < 2 {
				m, idx := pickM(o.A)
				note(m, idx)
				txns = append(txns, &openTxn{m.m.Txn(), cloneMap(m.want), fmt.Sprintf("Txn() at step %d on #%d", step, idx)})
			}
		case mTxnSet:
			if len(txns) > 0 {
				t := txns[o.B%len(txns)]
				t.txn.Set(o.Key, mv(o.Val))
				t.want[o.Key] = o.Val
			}
		case mTxnDelete:
			if len(txns) > 0 {
				t := txns[o.B%len(txns)]
				_, wok := t.want[o.Key]
				ok := t.txn.Delete(o.Key)
				delete(t.want, o.Key)
				if ok != wok {
					err = fail("maptxn", fmt.Errorf("MapTxn.Delete(%q)=%v, model %v", o.Key, ok, wok))
				}
			}
		case mTxnRead:
			if len(txns) > 0 {
				t := txns[o.B%len(txns)]
				if e := checkTxn("open map txn ("+t.origin+")", t.txn, o.Key, t.want); e != nil {
					err = fail("maptxn", e)
				}
			}
		case mTxnCommit:
			if len(txns) > 0 {
				t := txns[o.B%len(txns)]
				nm := t.txn.Commit()
				maps = append(maps, &mapMember{nm, cloneMap(t.want), fmt.Sprintf("MapTxn.Commit at step %d of %s", step, t.origin)})
				res.classes = append(res.classes, "maptxn_commit_"+shape(len(t.want)))
				// the transaction stays open: "can be used again for further modifications"
			}
		case mTxnDrop:
			if len(txns) > 0 {
				i := o.B % len(txns)
				txns = append(txns[:i], txns[i+1:]...)
			}
		case mEqual:
			a, _ := pickM(o.A)
			b, _ := pickM(o.B)
			wantKeys := len(a.want) == len(b.want)
			wantAll := wantKeys
			for k, v := range a.want {
				bv, ok := b.want[k]
				if !ok {
					wantKeys, wantAll = false, false
				} else if bv != v {
					wantAll = false
				}
			}
			if got := a.m.EqualKeys(b.m); got != wantKeys {
				err = fail("map-equal", fmt.Errorf("EqualKeys(%v, %v)=%v, model %v", sortedMap(a.want), sortedMap(b.want), got, wantKeys))
			} else if got := a.m.SlowEqual(b.m); got != wantAll {
				err = fail("map-equal", fmt.Errorf("SlowEqual(%v, %v)=%v, model %v", sortedMap(a.want), sortedMap(b.want), got, wantAll))
			}
		case mRoundTrip:
			m, idx := pickM(o.A)
			bs, e := json.Marshal(m.m)
			if e != nil {
				err = fail("map-json", fmt.Errorf("json.Marshal of member #%d: %v", idx, e))
				break
			}
			var back part.Map[string, mval]
			if e := json.Unmarshal(bs, &back); e != nil {
				err = fail("map-json", fmt.Errorf("json.Unmarshal(%s): %v", bs, e))
				break
			}
			if e := checkMap(fmt.Sprintf("JSON round-trip %s of member #%d", bs, idx), back, o.Key, m.want); e != nil {
				err = fail("map-json", e)
				break
			}
			if !back.SlowEqual(m.m) || !m.m.SlowEqual(back) {
				err = fail("map-json", fmt.Errorf("JSON round-trip %s of member #%d is not SlowEqual to the original", bs, idx))
				break
			}
			ys, e := yaml.Marshal(m.m)
			if e != nil {
				err = fail("map-yaml", fmt.Errorf("yaml.Marshal of member #%d: %v", idx, e))
				break
			}
			var yback part.Map[string, mval]
			if e := yaml.Unmarshal(ys, &yback); e != nil {
				err = fail("map-yaml", fmt.Errorf("yaml.Unmarshal(%q): %v", ys, e))
				break
			}
			if e := checkMap(fmt.Sprintf("YAML round-trip %q of member #%d", ys, idx), yback, o.Key, m.want); e != nil {
				err = fail("map-yaml", e)
				break
			}
			if !yback.SlowEqual(m.m) {
				err = fail("map-yaml", fmt.Errorf("YAML round-trip %q of member #%d is not SlowEqual to the original", ys, idx))
			}
			maps = append(maps, &mapMember{back, cloneMap(m.want), fmt.Sprintf("JSON round-trip at step %d of #%d", step, idx)})
			res.classes = append(res.classes, "roundtrip_"+shape(len(m.want)))
		case sNew:
			w := map[string]struct{}{}
			for _, k := range o.Keys {
				w[k] = struct{}{}
			}
			sets = append(sets, &setMember{part.NewSet(o.Keys...), w, fmt.Sprintf("NewSet(%q) at step %d", o.Keys, step)})
		case sSet:
			s := pickS(o.A)
			w := cloneSet(s.want)
			w[o.Key] = struct{}{}
			sets = append(sets, &setMember{s.s.Set(o.Key), w, fmt.Sprintf("Set.Set(%q) at step %d", o.Key, step)})
		case sDelete:
			s := pickS(o.A)
			w := cloneSet(s.want)
			delete(w, o.Key)
			sets = append(sets, &setMember{s.s.Delete(o.Key), w, fmt.Sprintf("Set.Delete(%q) at step %d", o.Key, step)})
		case sRead:
			s := pickS(o.A)
			if e := checkSet("set member ("+s.origin+")", s.s, s.want); e != nil {
				err = fail("set-read", e)
			}
		case sUnion:
			a, b := pickS(o.A), pickS(o.B)
			w := cloneSet(a.want)
			for k := range b.want {
				w[k] = struct{}{}
			}
			sets = append(sets, &setMember{a.s.Union(b.s), w, fmt.Sprintf("Union at step %d", step)})
			res.classes = append(res.classes, "set_union")
		case sDifference:
			a, b := pickS(o.A), pickS(o.B)
			w := cloneSet(a.want)
			for k := range b.want {
				delete(w, k)
			}
			sets = append(sets, &setMember{a.s.Difference(b.s), w, fmt.Sprintf("Difference at step %d", step)})
			res.classes = append(res.classes, "set_difference")
		case sEqual:
			a, b := pickS(o.A), pickS(o.B)
			want := len(a.want) == len(b.want)
			for k := range a.want {
				if _, ok := b.want[k]; !ok {
					want = false
				}
			}
			if got := a.s.Equal(b.s); got != want {
				err = fail("set-equal", fmt.Errorf("Set.Equal(%q, %q)=%v, model %v", sortedSet(a.want), sortedSet(b.want), got, want))
			}
		case sRoundTrip:
			s := pickS(o.A)
			bs, e := json.Marshal(s.s)
			if e != nil {
				err = fail("set-json", fmt.Errorf("json.Marshal: %v", e))
				break
			}
			var back part.Set[string]
			if e := json.Unmarshal(bs, &back); e != nil {
				err = fail("set-json", fmt.Errorf("json.Unmarshal(%s): %v", bs, e))
				break
			}
			if e := checkSet(fmt.Sprintf("JSON round-trip %s", bs), back, s.want); e != nil {
				err = fail("set-json", e)
				break
			}
			if !back.Equal(s.s) || !s.s.Equal(back) {
				err = fail("set-json", fmt.Errorf("JSON round-trip %s is not Equal to the original", bs))
				break
			}
			ys, e := yaml.Marshal(s.s)
			if e != nil {
				err = fail("set-yaml", fmt.Errorf("yaml.Marshal: %v", e))
				break
			}
			var yback part.Set[string]
			if e := yaml.Unmarshal(ys, &yback); e != nil {
				err = fail("set-yaml", fmt.Errorf("yaml.Unmarshal(%q): %v", ys, e))
				break
			}
			if e := checkSet(fmt.Sprintf("YAML round-trip %q", ys), yback, s.want); e != nil {
				err = fail("set-yaml", e)
				break
			}
			if !yback.Equal(s.s) || !s.s.Equal(yback) {
				err = fail("set-yaml", fmt.Errorf("YAML round-trip %q is not Equal to the original", ys))
			}
			sets = append(sets, &setMember{yback, cloneSet(s.want), fmt.Sprintf("YAML round-trip at step %d", step)})
		}
		if err == nil {
			err = audit(step)
		}
		if err != nil {
			res.err = fmt.Errorf("step %d %v: %w", step, o, err)
			return res
		}
	}
	return res
}

// wideKeys: 60 one-character keys (distinct first bytes below the empty key)
// and 20 keys below "a": with them a node that holds a value of its own grows
// and shrinks through the 4/16/48 child thresholds.
var wideKeys = func() []string {
	var out []string
	for c := 'A'; c <= 'Z'; c++ {
		out = append(out, string(c))
	}
	for c := '0'; c <= '9'; c++ {
		out = append(out, string(c))
	}
	for c := 'c'; c <= 'z'; c++ {
		out = append(out, string(c))
	}
	for c := 'A'; c < 'A'+20; c++ {
		out = append(out, "a"+string(c))
	}
	return out
}()

func genMSCase(t *rapid.T) MSCase {
	key := rapid.SampledFrom(msKeys)
	maxKeys := 4
	kinds := []int{mSet, mSet, mSet, mDelete, mDelete, mRead, mFromMap, mFromMap, mTxnBegin, mTxnSet, mTxnSet, mTxnDelete, mTxnRead, mTxnCommit, mTxnCommit, mTxnDrop, mEqual, mRoundTrip, mTxnLoopWrite,
		sNew, sSet, sSet, sDelete, sRead, sUnion, sDifference, sEqual, sRoundTrip}
	if rapid.IntRange(0, 2).Draw(t, "wide") == 0 {
		key = rapid.OneOf(rapid.SampledFrom(msKeys), rapid.SampledFrom(wideKeys), rapid.SampledFrom(wideKeys))
		maxKeys = 76
		kinds = append(kinds, mDeleteMany, mDeleteMany, sDeleteMany, sDeleteMany, mTxnDeleteMany, mFromMap, sNew, mSetMany, mSetMany, sSetMany)
	}
	genOp := rapid.Custom(func(t *rapid.T) MSOp {
		o := MSOp{K: rapid.SampledFrom(kinds).Draw(t, "k")}
		o.A = rapid.IntRange(0, 9).Draw(t, "a")
		if rapid.Bool().Draw(t, "latest") {
			o.A = -1 // the most recent member
		}
		o.B = rapid.IntRange(0, 9).Draw(t, "b")
		o.Key = key.Draw(t, "key")
		o.Val = rapid.IntRange(0, 9).Draw(t, "val")
		if o.K == mFromMap || o.K == sNew || o.K == mDeleteMany || o.K == sDeleteMany || o.K == mTxnDeleteMany {
			n := 4
			if maxKeys > 4 {
				n = rapid.SampledFrom([]int{2, 4, 5, 16, 17, 18, 40, 49, 60, maxKeys}).Draw(t, "nkeys")
			}
			o.Keys = rapid.SliceOfNDistinct(key, 0, n, rapid.ID[string]).Draw(t, "keys")
			o.Vals = rapid.SliceOfN(rapid.IntRange(10, 19), len(o.Keys), len(o.Keys)).Draw(t, "vals")
		}
		if o.K == mSetMany || o.K == sSetMany {
			// a run of one-character keys (distinct first bytes) with a key that is
			// a prefix of all of them ("") somewhere in the run
			perm := rapid.Permutation(wideKeys[:60]).Draw(t, "perm")
			n := rapid.SampledFrom([]int{4, 5, 16, 17, 48, 49, 50, 60}).Draw(t, "run")
			at := rapid.IntRange(0, n).Draw(t, "prefixKeyAt")
			o.Keys = append(append(append([]string{}, perm[:at]...), ""), perm[at:n]...)
		}
		return o
	})
	return MSCase{Ops: vk.Ops(t, genOp, 20, "ops")}
}

const ruleC17 = "branching histories of 1..44 operations over pools of part.Map[string,int] and part.Set[string] versions (keys over {\"\",a,b,ab,ba,abc,b0,é,\"a b\"}; in a third of the cases also 60 one-character keys and 20 keys below \"a\", with FromMap/NewSet of up to 76 keys, so that value-holding nodes cross the 4/16/48 child thresholds): Set/Delete/FromMap on any earlier member, MapTxn (up to two open, used further after Commit, interleaved with operations on other members), EqualKeys/SlowEqual, Union/Difference/Equal, JSON and YAML round-trips; every result and, after every step, every pool member and open transaction is compared with a Go map model. Non-trivial = an operation applied to a singleton or to an older (non-latest) member; distinct by case encoding."

func TestC17MapSet(t *testing.T) {
	const test = "TestC17MapSet"
	var c MSCase
	if vk.Replaying() {
		if vk.Replay("C17", test, &c) {
			if res := runMapSet(c); res.err != nil {
				vk.Fail(t, "C17", test, c, res.sig, "%v", res.err)
			}
		}
		return
	}
	rec := vk.NewRecorder("C17", test, ruleC17)
	defer rec.Flush()
	rapid.Check(t, func(rt *rapid.T) {
		c := genMSCase(rt)
		res := runMapSet(c)
		rec.Case(c, res.nontrivial, dedupe(res.classes)...)
		if res.err != nil {
			vk.Fail(rt, "C17", test, c, res.sig, "%v", res.err)
		}
	})
}

func hasKey(m map[string]int, k string) bool {
	_, ok := m[k]
	return ok
}
