//go:build verif

// Package tpart decides C11 (part.Tree is a correct, persistent ordered map),
// C12 (part.Tree watch channels) and C17 (part.Map / part.Set).
package tpart

import (
	"bytes"
	"fmt"
	"sort"
	"testing"

	"github.com/cilium/statedb/part"
	"pgregory.net/rapid"

	"verifharness/vk"
)

// ---------------------------------------------------------------- case

const (
	opBegin = iota
	opInsert
	opModify
	opDelete
	opInsertRange
	opDeleteRange
	opRead
	opClone
	opIter
	opCommit
	opAbandon
	opWatch
	opInsertWatch
	opOneShot
	opWatchAll
	opAllWrite // Txn.All with writes through the same transaction from inside the loop body
	numOps
)

var opNames = []string{"begin", "insert", "modify", "delete", "insertRange", "deleteRange", "read", "clone", "iter", "commit", "abandon", "watch", "insertWatch", "oneShot", "watchAll", "allWrite"}

type Op struct {
	K   int    `json:"k"`
	Key []byte `json:"key,omitempty"`
	Val int    `json:"val,omitempty"`
	A   int    `json:"a,omitempty"` // base version / range start / iterator kind / commit mode
	B   int    `json:"b,omitempty"` // range count / consume count / one-shot kind
	M   bool   `json:"m,omitempty"` // begin: main line
}

type TreeCase struct {
	RootOnly bool `json:"rootOnly"`
	Dense    bool `json:"dense,omitempty"`
	Chain    bool `json:"chain,omitempty"` // ranges are runs of nested keys c, cc, ccc, ... (deep paths)
	Ops      []Op `json:"ops"`
}

func (o Op) String() string {
	return fmt.Sprintf("%s(key=%x val=%d a=%d b=%d m=%v)", opNames[o.K], o.Key, o.Val, o.A, o.B, o.M)
}

// ---------------------------------------------------------------- model

type model map[string]int

func (m model) clone() model {
	c := make(model, len(m))
	for k, v := range m {
		c[k] = v
	}
	return c
}

type kv struct {
	k string
	v int
}

func (m model) sorted() []kv {
	out := make([]kv, 0, len(m))
	for k, v := range m {
		out = append(out, kv{k, v})
	}
	sort.Slice(out, func(i, j int) bool { return out[i].k < out[j].k })
	return out
}

func filterPrefix(s []kv, p []byte) []kv {
	var out []kv
	for _, e := range s {
		if bytes.HasPrefix([]byte(e.k), p) {
			out = append(out, e)
		}
	}
	return out
}

func filterLower(s []kv, p []byte) []kv {
	var out []kv
	for _, e := range s {
		if bytes.Compare([]byte(e.k), p) >= 0 {
			out = append(out, e)
		}
	}
	return out
}

func collectIter(it part.Iterator[int]) []kv {
	var out []kv
	it.All(func(k []byte, v int) bool {
		out = append(out, kv{string(k), v})
		return true
	})
	return out
}

func eqKV(a, b []kv) bool {
	if len(a) != len(b) {
		return false
	}
	for i := range a {
		if a[i] != b[i] {
			return false
		}
	}
	return true
}

func showKV(s []kv) string {
	var b bytes.Buffer
	b.WriteByte('[')
	for i, e := range s {
		if i > 12 {
			fmt.Fprintf(&b, " ...(%d)", len(s))
			break
		}
		fmt.Fprintf(&b, " %x=%d", e.k, e.v)
	}
	b.WriteString(" ]")
	return b.String()
}

// ---------------------------------------------------------------- interpreter

type version struct {
	tree   part.Tree[int]
	want   []kv // contents recorded when the version was obtained
	main   bool // on the notified main line
	origin string
}

type retainedIter struct {
	it     part.Iterator[int]
	want   []kv
	origin string
}

type watchKind int

const (
	wRoot watchKind = iota
	wGet
	wPrefix
	wInsert
)

type watched struct {
	ch     <-chan struct{}
	kind   watchKind
	key    []byte
	inTxn  bool // obtained from the in-flight main-line transaction: armed once it is notified
	origin string
	// obligations
	mustClose bool // per the model it has to be closed by now
	why       string
}

type result struct {
	err        error
	sig        string
	nontrivial bool
	classes    []string
}

type interp struct {
	c        TreeCase
	own      string // property whose assertions are active: "C11" or "C12"
	versions []*version
	head     int // index of the main-line head
	iters    []*retainedIter
	watches  []*watched

	dense     bool
	tx        *part.Txn[int]
	txModel   model
	txMain    bool
	txBase    int
	txChanged map[string]struct{} // keys successfully changed by the in-flight txn
	txDirty   bool
	txThresh  bool // crossed a node-size threshold (by child count heuristics)
	txMixed   [2]bool
	txRetain  bool

	res result
}

func closed(ch <-chan struct{}) bool {
	select {
	case <-ch:
		return true
	default:
		return false
	}
}

func (in *interp) failf(prop, sig, format string, args ...any) error {
	if prop != in.own {
		// Another property's assertion: the model can no longer be trusted for
		// this case; that property's own check reports it.
		in.res.classes = append(in.res.classes, "foreign_divergence")
		return errForeign
	}
	in.res.sig = sig
	return fmt.Errorf(format, args...)
}

var errForeign = fmt.Errorf("foreign divergence")

func modFn(old, new int) int { return old*7 + new + 1 }

func (in *interp) begin(base int, main bool) {
	if main {
		base = in.head
	} else {
		base = ((base % len(in.versions)) + len(in.versions)) % len(in.versions)
	}
	v := in.versions[base]
	in.tx = v.tree.Txn()
	in.txModel = model{}
	for _, e := range v.want {
		in.txModel[e.k] = e.v
	}
	in.txMain = main
	in.txBase = base
	in.txChanged = map[string]struct{}{}
	in.txDirty = false
	in.txThresh = false
	in.txMixed = [2]bool{}
	in.txRetain = false
}

func (in *interp) ensureTxn(o Op) {
	if in.tx == nil {
		in.begin(o.A, true)
	}
}

// childCount counts the distinct next bytes below prefix p in the model; used
// only to classify threshold crossings.
func childCount(m model, p []byte) int {
	seen := map[byte]struct{}{}
	for k := range m {
		if len(k) > len(p) && bytes.HasPrefix([]byte(k), p) {
			seen[k[len(p)]] = struct{}{}
		}
	}
	return len(seen)
}

func bucket(n int) int {
	switch {
	case n <= 4:
		return 0
	case n <= 16:
		return 1
	case n <= 48:
		return 2
	}
	return 3
}

func (in *interp) doInsert(key []byte, val int, modify bool, watch bool) error {
	k := string(key)
	oldV, had := in.txModel[k]
	var parent []byte
	if len(key) > 0 {
		parent = key[:len(key)-1]
	}
	before := bucket(childCount(in.txModel, parent))
	var (
		gotOld, gotNew int
		gotHad         bool
		ch             <-chan struct{}
	)
	wantNew := val
	if modify && had {
		wantNew = modFn(oldV, val)
	}
	switch {
	case modify && watch:
		gotOld, gotNew, gotHad, ch = in.tx.ModifyWatch(key, val, modFn)
	case modify:
		gotOld, gotNew, gotHad = in.tx.Modify(key, val, modFn)
	case watch:
		gotOld, gotHad, ch = in.tx.InsertWatch(key, val)
		gotNew = wantNew
	default:
		gotOld, gotHad = in.tx.Insert(key, val)
		gotNew = wantNew
	}
	in.txModel[k] = wantNew
	in.txChanged[k] = struct{}{}
	in.txDirty = true
	in.txMixed[0] = true
	if bucket(childCount(in.txModel, parent)) != before {
		in.txThresh = true
	}
	if gotHad != had || (had && gotOld != oldV) || gotNew != wantNew {
		return in.failf("C11", "write-result", "insert/modify(%x,%d) returned old=%d,%v new=%d; model old=%d,%v new=%d", key, val, gotOld, gotHad, gotNew, oldV, had, wantNew)
	}
	if watch && in.txMain {
		if ch == nil {
			return in.failf("C12", "nil-watch", "InsertWatch/ModifyWatch(%x) returned a nil channel", key)
		}
		if closed(ch) {
			return in.failf("C12", "closed-at-handout", "InsertWatch/ModifyWatch(%x) returned an already closed channel", key)
		}
		in.watches = append(in.watches, &watched{ch: ch, kind: wInsert, key: bytes.Clone(key), inTxn: true, origin: "InsertWatch in txn"})
	}
	return nil
}

func (in *interp) doDelete(key []byte) error {
	k := string(key)
	oldV, had := in.txModel[k]
	var parent []byte
	if len(key) > 0 {
		parent = key[:len(key)-1]
	}
	before := bucket(childCount(in.txModel, parent))
	gotOld, gotHad := in.tx.Delete(key)
	if had {
		delete(in.txModel, k)
		in.txChanged[k] = struct{}{}
		in.txDirty = true
		in.txMixed[1] = true
		if bucket(childCount(in.txModel, parent)) != before {
			in.txThresh = true
		}
	}
	if gotHad != had || (had && gotOld != oldV) {
		return in.failf("C11", "write-result", "delete(%x) returned %d,%v; model %d,%v", key, gotOld, gotHad, oldV, had)
	}
	return nil
}

type reader interface {
	Len() int
	Get(key []byte) (int, <-chan struct{}, bool)
	Prefix(key []byte) (part.Iterator[int], <-chan struct{})
	LowerBound(key []byte) part.Iterator[int]
	Iterator() part.Iterator[int]
}

func (in *interp) readCheck(r reader, want []kv, key []byte, what string) error {
	if r.Len() != len(want) {
		return in.failf("C11", "len", "%s: Len()=%d, model %d", what, r.Len(), len(want))
	}
	v, _, ok := r.Get(key)
	wi := sort.Search(len(want), func(i int) bool { return want[i].k >= string(key) })
	wok := wi < len(want) && want[wi].k == string(key)
	if ok != wok || (ok && v != want[wi].v) {
		return in.failf("C11", "get", "%s: Get(%x)=%d,%v, model %v", what, key, v, ok, wok)
	}
	it, _ := r.Prefix(key)
	if got, w := collectIter(it), filterPrefix(want, key); !eqKV(got, w) {
		return in.failf("C11", "prefix", "%s: Prefix(%x)=%s, model %s", what, key, showKV(got), showKV(w))
	}
	if got, w := collectIter(r.LowerBound(key)), filterLower(want, key); !eqKV(got, w) {
		return in.failf("C11", "lowerbound", "%s: LowerBound(%x)=%s, model %s", what, key, showKV(got), showKV(w))
	}
	if got := collectIter(r.Iterator()); !eqKV(got, want) {
		return in.failf("C11", "iterate", "%s: Iterator()=%s, model %s", what, showKV(got), showKV(want))
	}
	return nil
}

// audit re-reads every retained version, clone and iterator.
func (in *interp) audit(step int, full bool) error {
	for i, v := range in.versions {
		var got []kv
		v.tree.All(func(k []byte, val int) bool {
			got = append(got, kv{string(k), val})
			return true
		})
		if !eqKV(got, v.want) {
			return in.failf("C11", "persistence", "step %d: retained tree #%d (%s) changed: now %s, recorded %s", step, i, v.origin, showKV(got), showKV(v.want))
		}
		if v.tree.Len() != len(v.want) {
			return in.failf("C11", "persistence", "step %d: retained tree #%d (%s) Len()=%d, recorded %d", step, i, v.origin, v.tree.Len(), len(v.want))
		}
		if full {
			for _, e := range v.want {
				if val, _, ok := v.tree.Get([]byte(e.k)); !ok || val != e.v {
					return in.failf("C11", "persistence", "step %d: retained tree #%d (%s) Get(%x)=%d,%v, recorded %d", step, i, v.origin, e.k, val, ok, e.v)
				}
			}
		}
	}
	for i, r := range in.iters {
		if got := collectIter(r.it); !eqKV(got, r.want) { // All() does not consume
			return in.failf("C11", "persistence", "step %d: retained iterator #%d (%s) changed: now %s, recorded %s", step, i, r.origin, showKV(got), showKV(r.want))
		}
	}
	return nil
}

// channelSnapshot returns the open/closed state of all retained channels.
func (in *interp) channelSnapshot() []bool {
	out := make([]bool, len(in.watches))
	for i, w := range in.watches {
		out[i] = closed(w.ch)
	}
	return out
}

func (in *interp) checkUnchangedChannels(before []bool, what string) error {
	for i, was := range before {
		if !was && closed(in.watches[i].ch) {
			w := in.watches[i]
			return in.failf("C12", "closed-without-notify", "%s closed the channel from %s (kind %d key %x)", what, w.origin, w.kind, w.key)
		}
	}
	return nil
}

func (in *interp) collectWatches(key []byte) error {
	if in.tx != nil && !in.txMain {
		return nil // channels of branches off old versions may legitimately be closed
	}
	var (
		root, get, pfx <-chan struct{}
		origin         string
		inTxn          bool
	)
	if in.tx != nil {
		root = in.tx.RootWatch()
		_, get, _ = in.tx.Get(key)
		_, pfx = in.tx.Prefix(key)
		origin, inTxn = "in-flight txn", true
	} else {
		t := &in.versions[in.head].tree
		root = t.RootWatch()
		_, get, _ = t.Get(key)
		_, pfx = t.Prefix(key)
		origin = fmt.Sprintf("head version #%d", in.head)
	}
	cur := in.txModel
	if in.tx == nil {
		cur = model{}
		for _, e := range in.versions[in.head].want {
			cur[e.k] = e.v
		}
	}
	if _, present := cur[string(key)]; !present {
		in.res.classes = append(in.res.classes, "watch_absent")
	} else {
		in.res.classes = append(in.res.classes, "watch_present")
	}
	for _, x := range []struct {
		ch   <-chan struct{}
		kind watchKind
	}{{root, wRoot}, {get, wGet}, {pfx, wPrefix}} {
		if x.ch == nil {
			return in.failf("C12", "nil-watch", "nil watch channel (kind %d, key %x) from %s", x.kind, key, origin)
		}
		if closed(x.ch) {
			return in.failf("C12", "closed-at-handout", "channel (kind %d, key %x) from %s is closed when handed out", x.kind, key, origin)
		}
		if x.kind == wRoot && inTxn {
			continue // same channel as the head's root watch; tracked from the head
		}
		in.watches = append(in.watches, &watched{ch: x.ch, kind: x.kind, key: bytes.Clone(key), inTxn: inTxn, origin: origin})
	}
	return nil
}

// finishTxn commits (mode 0: CommitAndNotify, 1: Commit then Notify with a
// check in between) or abandons (mode 2) the in-flight transaction.
func (in *interp) finishTxn(mode int, step int) error {
	tx := in.tx
	want := in.txModel.sorted()
	before := in.channelSnapshot()
	defer func() { in.tx = nil }()
	nt := in.txMixed[0] && in.txMixed[1] && in.txThresh && in.txRetain
	if nt {
		in.res.nontrivial = true
	}
	if in.txThresh {
		in.res.classes = append(in.res.classes, "threshold_crossed")
	}
	if mode == 2 {
		in.res.classes = append(in.res.classes, "abandon")
		// nothing to call: an abandoned transaction is simply dropped
		if err := in.checkUnchangedChannels(before, "an abandoned transaction"); err != nil {
			return err
		}
		// channels handed out by the abandoned txn carry no further obligation
		kept := in.watches[:0]
		for _, w := range in.watches {
			if !w.inTxn {
				kept = append(kept, w)
			}
		}
		in.watches = kept
		return nil
	}
	if !in.txMain {
		in.res.classes = append(in.res.classes, "branch_commit")
		t := tx.Commit() // branches are never notified (as part.Map does)
		if err := in.checkUnchangedChannels(before, "Commit() of a branch without Notify"); err != nil {
			return err
		}
		in.addVersion(&version{tree: t, want: want, origin: fmt.Sprintf("branch commit at step %d off #%d", step, in.txBase)})
		return nil
	}
	in.res.classes = append(in.res.classes, "main_commit")
	oldRoot := in.versions[in.head].tree.RootWatch()
	var t part.Tree[int]
	if mode == 1 {
		t = tx.Commit()
		if err := in.checkUnchangedChannels(before, "Commit() before Notify()"); err != nil {
			return err
		}
		tx.Notify()
	} else {
		t = tx.CommitAndNotify()
	}
	// root channel: closed iff something was successfully changed
	if in.txDirty != closed(oldRoot) {
		return in.failf("C12", "root-iff", "after Commit+Notify the previous root watch is closed=%v but the transaction changed something=%v (changed keys %d)", closed(oldRoot), in.txDirty, len(in.txChanged))
	}
	if in.txDirty {
		in.res.classes = append(in.res.classes, "dirty_notify")
	} else {
		in.res.classes = append(in.res.classes, "clean_notify")
	}
	for _, w := range in.watches {
		if w.inTxn {
			// armed for later transactions only
			w.inTxn = false
			continue
		}
		hit := false
		switch w.kind {
		case wRoot:
			hit = in.txDirty
		case wGet, wInsert:
			_, hit = in.txChanged[string(w.key)]
		case wPrefix:
			for k := range in.txChanged {
				if bytes.HasPrefix([]byte(k), w.key) {
					hit = true
					break
				}
			}
		}
		if hit {
			w.mustClose = true
			w.why = fmt.Sprintf("notified transaction at step %d changed a matching key", step)
		}
	}
	for _, w := range in.watches {
		if w.mustClose && !closed(w.ch) {
			return in.failf("C12", "missed-close", "channel (kind %d, key %x) from %s is still open although %s", w.kind, w.key, w.origin, w.why)
		}
	}
	if t.RootWatch() == nil || closed(t.RootWatch()) {
		return in.failf("C12", "closed-at-handout", "root watch of the freshly committed tree is nil or closed")
	}
	in.versions[in.head].main = true
	in.addVersion(&version{tree: t, want: want, main: true, origin: fmt.Sprintf("main commit at step %d", step)})
	in.head = len(in.versions) - 1
	// drop satisfied obligations to keep the list small
	kept := in.watches[:0]
	for _, w := range in.watches {
		if !w.mustClose {
			kept = append(kept, w)
		}
	}
	in.watches = kept
	return nil
}

func (in *interp) addVersion(v *version) {
	in.versions = append(in.versions, v)
}

func runTree(c TreeCase, own string) (res result) {
	in := &interp{c: c, own: own, dense: c.Dense}
	defer func() {
		if r := recover(); r != nil {
			// a panic inside the code under test (or its internal BUG checks)
			in.res.sig = "panic"
			in.res.err = fmt.Errorf("panic: %v", r)
			if own == "C12" {
				// panics are attributed to C11 (model-exactness) only
				in.res.err = nil
				in.res.classes = append(in.res.classes, "foreign_divergence")
			}
			res = in.res
		}
	}()
	var t0 part.Tree[int]
	if c.RootOnly {
		t0 = part.New[int](part.RootOnlyWatch)
	} else {
		t0 = part.New[int]()
	}
	in.versions = []*version{{tree: t0, main: true, origin: "New()"}}
	for step, o := range c.Ops {
		var err error
		switch o.K {
		case opBegin:
			if in.tx == nil {
				in.begin(o.A, o.M)
			}
		case opInsert:
			in.ensureTxn(o)
			err = in.doInsert(o.Key, o.Val, false, false)
		case opModify:
			in.ensureTxn(o)
			err = in.doInsert(o.Key, o.Val, true, false)
		case opInsertWatch:
			in.ensureTxn(o)
			err = in.doInsert(o.Key, o.Val, o.B%2 == 1, true)
		case opDelete:
			in.ensureTxn(o)
			err = in.doDelete(o.Key)
		case opInsertRange, opDeleteRange:
			in.ensureTxn(o)
			for i := 0; i < o.B && err == nil; i++ {
				k := append(bytes.Clone(o.Key), byte(o.A+i))
				long := append(bytes.Clone(k), 5)
				if in.c.Chain {
					// nested keys: every key is a prefix of the next one, so the
					// path to the longest one has one node per key
					k = chainKey(o.A + i)
					long = append(bytes.Clone(k), 'x')
				}
				if o.K == opInsertRange {
					if o.Val == 5 {
						k = long // a longer key: the child is an inner position with a deeper leaf
					}
					err = in.doInsert(k, o.Val+i, false, false)
				} else {
					// delete whichever form is present
					err = in.doDelete(k)
					if err == nil {
						err = in.doDelete(long)
					}
				}
			}
		case opRead:
			if in.tx != nil {
				err = in.readCheck(in.tx, in.txModel.sorted(), o.Key, "in-flight txn")
			} else {
				v := in.versions[((o.A%len(in.versions))+len(in.versions))%len(in.versions)]
				err = in.readCheck(&v.tree, v.want, o.Key, "committed tree ("+v.origin+")")
			}
		case opClone:
			if in.tx != nil {
				cl := in.tx.Clone()
				in.txRetain = true
				in.addVersion(&version{tree: cl, want: in.txModel.sorted(), origin: fmt.Sprintf("Clone() at step %d", step)})
				in.res.classes = append(in.res.classes, "clone_midtxn")
			}
		case opIter:
			var (
				it   part.Iterator[int]
				want []kv
				src  reader
				all  []kv
			)
			if in.tx != nil {
				src, all = in.tx, in.txModel.sorted()
				in.txRetain = true
			} else {
				v := in.versions[((o.A%len(in.versions))+len(in.versions))%len(in.versions)]
				src, all = &v.tree, v.want
			}
			switch ((o.Val % 3) + 3) % 3 {
			case 0:
				it, want = src.Iterator(), all
			case 1:
				it, _ = src.Prefix(o.Key)
				want = filterPrefix(all, o.Key)
			default:
				it, want = src.LowerBound(o.Key), filterLower(all, o.Key)
			}
			// partially consume with Next: the remainder must stay stable
			for i := 0; i < o.B && err == nil; i++ {
				k, v, ok := it.Next()
				if len(want) == 0 {
					if ok {
						err = in.failf("C11", "iterate", "step %d: Next() yielded %x=%d beyond the model", step, k, v)
					}
					break
				}
				if !ok || string(k) != want[0].k || v != want[0].v {
					err = in.failf("C11", "iterate", "step %d: Next()=%x,%d,%v, model %x,%d", step, k, v, ok, want[0].k, want[0].v)
					break
				}
				want = want[1:]
			}
			in.iters = append(in.iters, &retainedIter{it: it, want: want, origin: fmt.Sprintf("iterator kind %d at step %d (in txn: %v)", o.Val%3, step, in.tx != nil)})
			in.res.classes = append(in.res.classes, "iter_retained")
		case opAllWrite:
			if in.tx != nil {
				// the loop visits the contents the transaction had when All was
				// called, whatever the loop body writes through the transaction
				want := in.txModel.sorted()
				var got []kv
				at := 0
				if len(want) > 0 {
					at = ((o.B % len(want)) + len(want)) % len(want)
				}
				in.tx.All(func(k []byte, v int) bool {
					got = append(got, kv{string(k), v})
					if len(got)-1 >= at && err == nil {
						if o.A%2 == 0 {
							err = in.doDelete(bytes.Clone(k))
						}
						if err == nil {
							err = in.doInsert(o.Key, o.Val, false, false)
						}
					}
					return err == nil
				})
				if err == nil && !eqKV(got, want) {
					err = in.failf("C11", "iterate", "step %d: Txn.All with writes from inside the loop visited %s, the transaction held %s when the loop started", step, showKV(got), showKV(want))
				}
				in.res.classes = append(in.res.classes, "all_with_writes")
			}
		case opCommit:
			if in.tx != nil {
				err = in.finishTxn(((o.A%2)+2)%2, step)
			}
		case opAbandon:
			if in.tx != nil {
				err = in.finishTxn(2, step)
			}
		case opWatch:
			err = in.collectWatches(o.Key)
		case opWatchAll:
			// channels for every word key and prefix, taken from the head before a
			// transaction starts (taking them inside would freeze its nodes)
			if in.tx == nil {
				keys := wordKeys
				if in.dense {
					keys = denseWatchKeys
				}
				for _, k := range keys {
					if err = in.collectWatches(k); err != nil {
						break
					}
				}
			}
		case opOneShot:
			if in.tx == nil {
				// Tree.Insert/Modify/Delete on the head: a complete notified transaction
				in.begin(0, true)
				in.tx = nil // the one-shot call owns its own transaction
				t := &in.versions[in.head].tree
				oldRoot := t.RootWatch()
				before := in.channelSnapshot()
				_ = before
				k := string(o.Key)
				oldV, had := in.txModel[k]
				var (
					nt     part.Tree[int]
					gotOld int
					gotHad bool
				)
				changed := true
				switch ((o.B % 3) + 3) % 3 {
				case 0:
					gotOld, gotHad, nt = t.Insert(o.Key, o.Val)
					in.txModel[k] = o.Val
				case 1:
					gotOld, gotHad, nt = t.Modify(o.Key, o.Val, modFn)
					if had {
						in.txModel[k] = modFn(oldV, o.Val)
					} else {
						in.txModel[k] = o.Val
					}
				default:
					gotOld, gotHad, nt = t.Delete(o.Key)
					delete(in.txModel, k)
					changed = had
				}
				if gotHad != had || (had && gotOld != oldV) {
					err = in.failf("C11", "write-result", "one-shot op %d on %x returned %d,%v; model %d,%v", o.B%3, o.Key, gotOld, gotHad, oldV, had)
					break
				}
				if changed != closed(oldRoot) {
					err = in.failf("C12", "root-iff", "one-shot op %d on %x: previous root watch closed=%v, changed=%v", o.B%3, o.Key, closed(oldRoot), changed)
					break
				}
				for _, w := range in.watches {
					hit := false
					switch w.kind {
					case wRoot:
						hit = changed
					case wGet, wInsert:
						hit = changed && bytes.Equal(w.key, o.Key)
					case wPrefix:
						hit = changed && bytes.HasPrefix(o.Key, w.key)
					}
					if hit && !closed(w.ch) {
						err = in.failf("C12", "missed-close", "one-shot op on %x left channel (kind %d key %x from %s) open", o.Key, w.kind, w.key, w.origin)
						break
					}
				}
				if err != nil {
					break
				}
				kept := in.watches[:0]
				for _, w := range in.watches {
					if !closed(w.ch) {
						kept = append(kept, w)
					}
				}
				in.watches = kept
				in.addVersion(&version{tree: nt, want: in.txModel.sorted(), main: true, origin: fmt.Sprintf("one-shot at step %d", step)})
				in.head = len(in.versions) - 1
				in.res.classes = append(in.res.classes, "one_shot")
			}
		}
		if err == nil {
			err = in.audit(step, false)
		}
		if err != nil {
			if err == errForeign {
				return in.res
			}
			in.res.err = fmt.Errorf("step %d %v: %w", step, o, err)
			return in.res
		}
	}
	if in.tx != nil {
		if err := in.finishTxn(1, len(c.Ops)); err != nil && err != errForeign {
			in.res.err = fmt.Errorf("final commit: %w", err)
			return in.res
		}
	}
	if err := in.audit(len(c.Ops), true); err != nil && err != errForeign {
		in.res.err = fmt.Errorf("final audit: %w", err)
	}
	return in.res
}

// ---------------------------------------------------------------- generators

var sparseAlphabet = []byte{0x00, 0x01, 'a', 0xff}

func genSparseKey() *rapid.Generator[[]byte] {
	return rapid.SliceOfN(rapid.SampledFrom(sparseAlphabet), 0, 4)
}

func genDenseKey() *rapid.Generator[[]byte] {
	return rapid.Custom(func(t *rapid.T) []byte {
		p := rapid.SampledFrom([]byte{'p', 'q'}).Draw(t, "p")
		switch rapid.IntRange(0, 3).Draw(t, "shape") {
		case 0:
			return []byte{p}
		case 1:
			return []byte{p, rapid.Byte().Draw(t, "x")}
		case 2:
			return []byte{p, rapid.Byte().Draw(t, "x"), rapid.SampledFrom([]byte{0, 1, 'z'}).Draw(t, "y")}
		default:
			return []byte{}
		}
	})
}

func chainKey(n int) []byte { return bytes.Repeat([]byte{'c'}, n) }

var chainLens = []int{0, 1, 2, 3, 30, 31, 32, 33, 34, 35, 36, 40, 47, 48, 60}

func genChainKey() *rapid.Generator[[]byte] {
	return rapid.Custom(func(t *rapid.T) []byte {
		k := chainKey(rapid.SampledFrom(chainLens).Draw(t, "len"))
		if rapid.IntRange(0, 3).Draw(t, "branch") == 0 {
			k = append(k, 'x')
		}
		return k
	})
}

var denseWatchKeys = [][]byte{{'p'}, {'q'}, {'p', 0}, {'p', 1}, {'p', 200}, {'q', 0}, {'q', 12}, {}}

var wordKeys = func() [][]byte {
	var out [][]byte
	for _, w := range []string{"", "a", "ab", "abc", "abd", "abe", "abcd", "abcde", "x", "xy", "xyz", "b", "ba"} {
		out = append(out, []byte(w))
	}
	return out
}()

func genTreeCase(t *rapid.T) TreeCase {
	c := TreeCase{RootOnly: rapid.Bool().Draw(t, "rootOnly")}
	dist := rapid.SampledFrom([]int{0, 1, 1, 2, 2, 3}).Draw(t, "keyDistribution")
	dense := dist == 1
	keyGen := genSparseKey()
	switch dist {
	case 1:
		keyGen = rapid.OneOf(genDenseKey(), genDenseKey(), genSparseKey())
	case 2:
		// nested words: inner nodes with a leaf and exactly one or two children,
		// merges and shift-ups on delete
		keyGen = rapid.SampledFrom(wordKeys)
	}
	weights := []int{opBegin, opInsert, opInsert, opInsert, opModify, opDelete, opDelete, opRead, opRead, opClone, opIter, opCommit, opCommit, opAbandon, opWatch, opWatch, opInsertWatch, opOneShot, opAllWrite}
	if dist == 2 {
		// long write-only transactions (reads would bump the txnID and mask
		// in-place mutation paths), with channels collected up front
		weights = []int{opBegin, opInsert, opInsert, opInsert, opInsert, opDelete, opDelete, opDelete, opDelete, opModify, opCommit, opCommit, opAbandon, opWatchAll, opWatchAll, opInsertWatch, opRead}
	}
	if dist == 3 {
		// deep paths: runs of nested keys (more than 32 nodes between the root and the longest key)
		c.Chain = true
		keyGen = genChainKey()
		weights = append(weights, opInsertRange, opInsertRange, opInsertRange, opDeleteRange, opDelete, opDelete)
	}
	c.Dense = dense
	if dense {
		weights = append(weights, opWatchAll, opWatchAll, opInsertRange, opInsertRange, opInsertRange, opDeleteRange, opDeleteRange, opClone, opIter)
	}
	genOp := rapid.Custom(func(t *rapid.T) Op {
		o := Op{K: rapid.SampledFrom(weights).Draw(t, "k")}
		switch o.K {
		case opBegin:
			o.M = rapid.IntRange(0, 3).Draw(t, "main") != 0
			o.A = rapid.IntRange(0, 7).Draw(t, "base")
		case opInsert, opModify, opInsertWatch:
			o.Key = keyGen.Draw(t, "key")
			o.Val = rapid.IntRange(0, 99).Draw(t, "val")
			o.B = rapid.IntRange(0, 1).Draw(t, "modify")
		case opDelete, opWatch:
			o.Key = keyGen.Draw(t, "key")
		case opAllWrite:
			o.Key = keyGen.Draw(t, "key")
			o.Val = rapid.IntRange(0, 99).Draw(t, "val")
			o.A = rapid.IntRange(0, 1).Draw(t, "deleteVisited")
			o.B = rapid.IntRange(0, 5).Draw(t, "from")
		case opRead:
			o.Key = keyGen.Draw(t, "key")
			o.A = rapid.IntRange(0, 7).Draw(t, "ver")
		case opInsertRange, opDeleteRange:
			o.Key = []byte{rapid.SampledFrom([]byte{'p', 'q'}).Draw(t, "p")}
			o.A = rapid.SampledFrom([]int{0, 0, 1, 3, 12, 40, 100, 200}).Draw(t, "from")
			o.B = rapid.SampledFrom([]int{1, 2, 4, 5, 13, 17, 33, 49, 56}).Draw(t, "count")
			o.Val = rapid.IntRange(0, 5).Draw(t, "val")
			if c.Chain {
				o.A = rapid.SampledFrom([]int{0, 0, 1, 2, 20, 30, 31, 32, 33}).Draw(t, "chainFrom")
				o.B = rapid.SampledFrom([]int{1, 2, 5, 13, 17, 33, 35, 49}).Draw(t, "chainCount")
			}
		case opIter:
			o.Key = keyGen.Draw(t, "key")
			o.Val = rapid.IntRange(0, 2).Draw(t, "kind")
			o.A = rapid.IntRange(0, 7).Draw(t, "ver")
			o.B = rapid.IntRange(0, 3).Draw(t, "consume")
		case opCommit:
			o.A = rapid.IntRange(0, 1).Draw(t, "mode")
		case opOneShot:
			o.Key = keyGen.Draw(t, "key")
			o.Val = rapid.IntRange(0, 99).Draw(t, "val")
			o.B = rapid.IntRange(0, 2).Draw(t, "kind")
		}
		return o
	})
	c.Ops = vk.Ops(t, genOp, 25, "ops")
	return c
}

const ruleC11 = "histories of 1..40 operations on part.Tree (both watch modes; sparse alphabet {00,01,61,ff} len 0..4, nested words (a, ab, abc, abd, ...), dense fan-out keys with range inserts/deletes crossing the 4/16/48 child thresholds, or chains of nested keys c, cc, ccc, ... up to 60 levels deep): main-line notified transactions, un-notified branches off any earlier version, abandoned transactions, one-shot ops, reads, clones and partially consumed iterators retained across later writes; every result compared with a sorted-map model and every retained tree/clone/iterator re-read after every step. Non-trivial = a transaction that mixes inserts and deletes, crosses a node-size threshold and has a clone or iterator taken mid-transaction that is re-checked afterwards; distinct by case encoding."

const ruleC12 = "same histories as C11 with watch-channel bookkeeping: channels from RootWatch/Get/Prefix of the main-line head and of the in-flight main-line transaction and from InsertWatch/ModifyWatch are retained; after each notified transaction the previous root channel must be closed iff a key was successfully changed, Get(k)/InsertWatch(k) channels closed if k changed, Prefix(p) channels closed if a key below p changed; nothing may be closed at hand-out, between Commit and Notify, by an un-notified branch or by an abandoned transaction. Non-trivial = a case with a notified dirty transaction while at least one channel for an absent key or prefix was retained, plus a threshold crossing; distinct by case encoding."

func treeTest(t *testing.T, prop, test, rule string) {
	var c TreeCase
	if vk.Replaying() {
		if vk.Replay(prop, test, &c) {
			if res := runTree(c, prop); res.err != nil {
				vk.Fail(t, prop, test, c, res.sig, "%v", res.err)
			}
		}
		return
	}
	rec := vk.NewRecorder(prop, test, rule)
	defer rec.Flush()
	rapid.Check(t, func(rt *rapid.T) {
		c := genTreeCase(rt)
		res := runTree(c, prop)
		nt := res.nontrivial
		if prop == "C12" {
			nt = has(res.classes, "dirty_notify") && has(res.classes, "watch_absent")
		}
		rec.Case(c, nt, dedupe(res.classes)...)
		if res.err != nil {
			vk.Fail(rt, prop, test, c, res.sig, "%v", res.err)
		}
	})
}

func has(s []string, x string) bool {
	for _, e := range s {
		if e == x {
			return true
		}
	}
	return false
}

func dedupe(s []string) []string {
	seen := map[string]struct{}{}
	var out []string
	for _, e := range s {
		if _, ok := seen[e]; !ok {
			seen[e] = struct{}{}
			out = append(out, e)
		}
	}
	return out
}

func TestC11Tree(t *testing.T) { treeTest(t, "C11", "TestC11Tree", ruleC11) }
func TestC12Watch(t *testing.T) { treeTest(t, "C12", "TestC12Watch", ruleC12) }
