//go:build verif

package tenc

import (
	"testing"

	"verifharness/vk"
)

// FuzzC18NonUnique: raw byte strings straight from the fuzzer (no length bound
// below 40 bytes per part is imposed by truncation).
func FuzzC18NonUnique(f *testing.F) {
	f.Add([]byte{}, []byte{}, []byte{0}, []byte{1})
	f.Add([]byte{0, 1}, []byte{1, 0}, []byte{0, 1, 2}, []byte{1})
	f.Fuzz(func(t *testing.T, secA, priA, secB, priB []byte) {
		trunc := func(b []byte) []byte {
			if len(b) > 40 {
				b = b[:40]
			}
			if b == nil {
				b = []byte{}
			}
			return b
		}
		c := pairCase{SecA: trunc(secA), PriA: trunc(priA), SecB: trunc(secB), PriB: trunc(priB)}
		if err := checkPair(c); err != nil {
			vk.Fail(t, "C18", "TestC18NonUniqueRandom", c, "nonunique-order", "%v", err)
		}
		if err := checkSplit(c.SecB, c.PriB); err != nil {
			vk.Fail(t, "C18", "TestC18NonUniqueRandom", c, "nonunique-order", "%v", err)
		}
	})
}
