//go:build verif

// Package tenc decides C18: index key encodings are injective and
// order-preserving.
package tenc

import (
	"bytes"
	"encoding/binary"
	"fmt"
	"math"
	"net/netip"
	"sort"
	"strconv"
	"testing"

	"github.com/cilium/statedb"
	"github.com/cilium/statedb/index"
	"github.com/cilium/statedb/lpm"
	"pgregory.net/rapid"

	"verifharness/vk"
)

var alphabet = []byte{0x00, 0x01, 0x02, 'a', 0xff}

// allKeys enumerates every byte string over the alphabet of length <= n in
// bytewise order.
func allKeys(n int) [][]byte {
	out := [][]byte{{}}
	level := [][]byte{{}}
	for l := 1; l <= n; l++ {
		var next [][]byte
		for _, p := range level {
			for _, b := range alphabet {
				k := append(append([]byte{}, p...), b)
				next = append(next, k)
			}
		}
		out = append(out, next...)
		level = next
	}
	sort.Slice(out, func(i, j int) bool { return bytes.Compare(out[i], out[j]) < 0 })
	return out
}

// unescape inverts the documented escaping (0x00 -> 01 01, 0x01 -> 01 02).
func unescape(b []byte) ([]byte, error) {
	out := []byte{}
	for i := 0; i < len(b); i++ {
		switch b[i] {
		case 0x00:
			return nil, fmt.Errorf("raw 0x00 inside an escaped part %x", b)
		case 0x01:
			if i+1 >= len(b) {
				return nil, fmt.Errorf("dangling escape in %x", b)
			}
			i++
			switch b[i] {
			case 0x01:
				out = append(out, 0x00)
			case 0x02:
				out = append(out, 0x01)
			default:
				return nil, fmt.Errorf("bad escape in %x", b)
			}
		default:
			out = append(out, b[i])
		}
	}
	return out, nil
}

type pairCase struct {
	SecA, PriA, SecB, PriB []byte
}

func specCompare(c pairCase) int {
	if r := bytes.Compare(c.SecA, c.SecB); r != 0 {
		return r
	}
	return bytes.Compare(c.PriA, c.PriB)
}

func checkPair(c pairCase) error {
	ea := statedb.VerifEncodeNonUniqueKey(c.PriA, c.SecA)
	eb := statedb.VerifEncodeNonUniqueKey(c.PriB, c.SecB)
	want := specCompare(c)
	got := bytes.Compare(ea, eb)
	if want != got {
		return fmt.Errorf("order/injectivity: spec compare (%x,%x) vs (%x,%x) = %d but encoded %x vs %x = %d",
			c.SecA, c.PriA, c.SecB, c.PriB, want, ea, eb, got)
	}
	return checkSplit(c.SecA, c.PriA)
}

func checkSplit(sec, pri []byte) error {
	e := statedb.VerifEncodeNonUniqueKey(pri, sec)
	es, ep := statedb.VerifNonUniqueKeyParts(e)
	s, err := unescape(es)
	if err != nil {
		return fmt.Errorf("split of %x (sec %x pri %x): secondary part: %v", e, sec, pri, err)
	}
	p, err := unescape(ep)
	if err != nil {
		return fmt.Errorf("split of %x (sec %x pri %x): primary part: %v", e, sec, pri, err)
	}
	if !bytes.Equal(s, sec) || !bytes.Equal(p, pri) {
		return fmt.Errorf("split of %x gives (%x,%x), want (%x,%x)", e, s, p, sec, pri)
	}
	// The escaped query key must be the prefix up to the separator.
	q := statedb.VerifEncodeNonUniqueBytes(sec)
	if !bytes.Equal(q, es) {
		return fmt.Errorf("query escaping of %x is %x but stored secondary part is %x", sec, q, es)
	}
	if len(e) <= len(q) || e[len(q)] != 0x00 {
		return fmt.Errorf("encoded key %x has no 0x00 separator after the secondary part %x", e, q)
	}
	return nil
}

func hostile(k []byte) bool {
	if len(k) == 0 {
		return true
	}
	for _, b := range k {
		if b <= 0x02 {
			return true
		}
	}
	return false
}

// TestC18NonUniqueExhaustive: all 156x156 (secondary, primary) pairs over the
// hostile alphabet, sorted by the specification order; encoded keys must be
// strictly increasing along that list and must split back.
func TestC18NonUniqueExhaustive(t *testing.T) {
	const test = "TestC18NonUniqueExhaustive"
	if vk.Replaying() {
		var c pairCase
		if vk.Replay("C18", test, &c) {
			if err := checkPair(c); err != nil {
				vk.Fail(t, "C18", test, c, "nonunique-order", "%v", err)
			}
		}
		return
	}
	rec := vk.NewRecorder("C18", test, "every (secondary, primary) pair of byte strings over {00,01,02,61,ff} with length <= 3 in specification order; adjacent pairs compared after encoding, every key split back; non-trivial = a pair element is empty or contains an escape byte (<= 0x02); distinct by pair index")
	defer rec.Flush()
	keys := allKeys(3)
	type sp struct{ sec, pri []byte }
	pairs := make([]sp, 0, len(keys)*len(keys))
	for _, s := range keys {
		for _, p := range keys {
			pairs = append(pairs, sp{s, p})
		}
	}
	for i := range pairs {
		c := pairCase{SecA: pairs[i].sec, PriA: pairs[i].pri}
		var err error
		if i+1 < len(pairs) {
			c.SecB, c.PriB = pairs[i+1].sec, pairs[i+1].pri
			err = checkPair(c)
		} else {
			err = checkSplit(c.SecA, c.PriA)
		}
		rec.CaseKey(uint64(i), hostile(c.SecA) || hostile(c.PriA), func() any { return c })
		if err != nil {
			vk.Fail(t, "C18", test, c, "nonunique-order", "%v", err)
		}
	}
	rec.Exhaustive(true)
	rec.Note("pairs", len(pairs))
}

func genKey(maxLen int) *rapid.Generator[[]byte] {
	return rapid.SliceOfN(rapid.OneOf(
		rapid.SampledFrom([]byte{0x00, 0x01, 0x02, 0x00, 0x01}),
		rapid.Byte(),
	), 0, maxLen)
}

// TestC18NonUniqueRandom: longer, escape-heavy random pairs; pairs are built
// related (shared prefixes) so that the comparison is decided late.
func TestC18NonUniqueRandom(t *testing.T) {
	const test = "TestC18NonUniqueRandom"
	if vk.Replaying() {
		var c pairCase
		if vk.Replay("C18", test, &c) {
			if err := checkPair(c); err != nil {
				vk.Fail(t, "C18", test, c, "nonunique-order", "%v", err)
			}
		}
		return
	}
	rec := vk.NewRecorder("C18", test, "random (secondary, primary) pairs up to 40 bytes, escape-heavy, second pair derived from the first by a small edit; non-trivial = the two pairs differ and one contains an escape byte")
	defer rec.Flush()
	rapid.Check(t, func(rt *rapid.T) {
		c := pairCase{
			SecA: genKey(40).Draw(rt, "secA"),
			PriA: genKey(40).Draw(rt, "priA"),
		}
		edit := func(k []byte, label string) []byte {
			switch rapid.IntRange(0, 4).Draw(rt, label+"Edit") {
			case 0:
				return bytes.Clone(k)
			case 1:
				n := rapid.IntRange(0, len(k)).Draw(rt, label+"Cut")
				return bytes.Clone(k[:n])
			case 2:
				return append(bytes.Clone(k), genKey(3).Draw(rt, label+"Ext")...)
			case 3:
				out := bytes.Clone(k)
				if len(out) > 0 {
					i := rapid.IntRange(0, len(out)-1).Draw(rt, label+"Pos")
					out[i] = rapid.SampledFrom([]byte{0, 1, 2, 3, 0xff}).Draw(rt, label+"Byte")
				}
				return out
			default:
				return genKey(40).Draw(rt, label+"New")
			}
		}
		c.SecB = edit(c.SecA, "sec")
		c.PriB = edit(c.PriA, "pri")
		err := checkPair(c)
		if err == nil {
			err = checkSplit(c.SecB, c.PriB)
		}
		nt := specCompare(c) != 0 && (hostile(c.SecA) || hostile(c.PriA) || hostile(c.SecB) || hostile(c.PriB))
		rec.Case(c, nt)
		if err != nil {
			vk.Fail(rt, "C18", test, c, "nonunique-order", "%v", err)
		}
	})
}

type tobj struct {
	Pri []byte
	Sec []byte
}

func (tobj) TableHeader() []string { return nil }
func (tobj) TableRow() []string    { return nil }

// TestC18BlackBox: the same enumerated keys through a real table with a
// non-unique index; List/Prefix/LowerBound must follow the specification
// order (secondary, then primary).
func TestC18BlackBox(t *testing.T) {
	const test = "TestC18BlackBox"
	if vk.Replaying() {
		return
	}
	rec := vk.NewRecorder("C18", test, "a table with a non-unique secondary index holding one object per (secondary, primary) pair, secondary over all 156 alphabet keys, primary over 7 hostile keys; List(k) for every k, Prefix(k) and LowerBound(k) for every k compared with the specification order; non-trivial = query key is empty or contains an escape byte; distinct by (query kind, key)")
	defer rec.Flush()
	db := statedb.New()
	priIdx := statedb.Index[*tobj, []byte]{
		Name:       "id",
		FromObject: func(o *tobj) index.KeySet { return index.NewKeySet(append(append([]byte{}, o.Sec...), append([]byte{0xfe, byte(len(o.Sec))}, o.Pri...)...)) },
		FromKey:    func(k []byte) index.Key { return k },
		Unique:     true,
	}
	// Primary key must be unique per object; the secondary index ties are
	// broken by it, so build the specification order from the real primary key.
	secIdx := statedb.Index[*tobj, []byte]{
		Name:       "sec",
		FromObject: func(o *tobj) index.KeySet { return index.NewKeySet(o.Sec) },
		FromKey:    func(k []byte) index.Key { return k },
		Unique:     false,
	}
	tbl, err := statedb.NewTable[*tobj](db, "objs", priIdx, secIdx)
	if err != nil {
		t.Fatal(err)
	}
	keys := allKeys(3)
	pris := [][]byte{{}, {0x00}, {0x00, 0x00}, {0x01}, {0x01, 0x02}, {'a'}, {0xff, 0x00}}
	var objs []*tobj
	wtxn := db.WriteTxn(tbl)
	for _, s := range keys {
		for _, p := range pris {
			o := &tobj{Pri: p, Sec: s}
			objs = append(objs, o)
			if _, _, err := tbl.Insert(wtxn, o); err != nil {
				t.Fatal(err)
			}
		}
	}
	rtxn := wtxn.Commit()
	pk := func(o *tobj) []byte { return priIdx.FromObject(o).First() }
	sort.Slice(objs, func(i, j int) bool {
		if r := bytes.Compare(objs[i].Sec, objs[j].Sec); r != 0 {
			return r < 0
		}
		return bytes.Compare(pk(objs[i]), pk(objs[j])) < 0
	})
	collect := func(seq func(func(*tobj, statedb.Revision) bool)) []*tobj {
		var out []*tobj
		seq(func(o *tobj, _ statedb.Revision) bool { out = append(out, o); return true })
		return out
	}
	same := func(a, b []*tobj) bool {
		if len(a) != len(b) {
			return false
		}
		for i := range a {
			if a[i] != b[i] {
				return false
			}
		}
		return true
	}
	type bbCase struct {
		Kind string
		Key  []byte
	}
	for ki, k := range keys {
		var wantList, wantPrefix, wantLB []*tobj
		for _, o := range objs {
			if bytes.Equal(o.Sec, k) {
				wantList = append(wantList, o)
			}
			if bytes.HasPrefix(o.Sec, k) {
				wantPrefix = append(wantPrefix, o)
			}
			if bytes.Compare(o.Sec, k) >= 0 {
				wantLB = append(wantLB, o)
			}
		}
		for qi, q := range []struct {
			kind string
			got  []*tobj
			want []*tobj
		}{
			{"List", collect(tbl.List(rtxn, secIdx.Query(k))), wantList},
			{"Prefix", collect(tbl.Prefix(rtxn, secIdx.Query(k))), wantPrefix},
			{"LowerBound", collect(tbl.LowerBound(rtxn, secIdx.Query(k))), wantLB},
		} {
			c := bbCase{q.kind, k}
			rec.CaseKey(uint64(ki*4+qi), hostile(k), func() any { return c }, q.kind)
			if !same(q.got, q.want) {
				vk.Fail(t, "C18", test, c, "nonunique-blackbox", "%s(%x): got %d objects, want %d (first mismatch order/contents)", q.kind, k, len(q.got), len(q.want))
			}
		}
	}
}

// TestC18Uint16Exhaustive: all 65536 values strictly increasing; Int16 injective.
func TestC18Uint16Exhaustive(t *testing.T) {
	const test = "TestC18Uint16Exhaustive"
	if vk.Replaying() {
		return
	}
	rec := vk.NewRecorder("C18", test, "all 65536 uint16/int16 values: Uint16 keys strictly increasing bytewise, Int16 keys pairwise distinct, decimal-string constructors agree; every value counts as non-trivial (distinct by value)")
	defer rec.Flush()
	var prev []byte
	seen := map[string]int16{}
	for i := 0; i <= math.MaxUint16; i++ {
		n := uint16(i)
		k := index.Uint16(n)
		rec.CaseKey(uint64(i), true, func() any { return map[string]any{"uint16": n} })
		if len(k) != 2 {
			vk.Fail(t, "C18", test, map[string]any{"uint16": n}, "int-encoder", "Uint16(%d) has %d bytes", n, len(k))
		}
		if prev != nil && bytes.Compare(prev, k) >= 0 {
			vk.Fail(t, "C18", test, map[string]any{"uint16": n}, "int-encoder", "Uint16(%d)=%x not greater than Uint16(%d)=%x", n, k, n-1, prev)
		}
		prev = bytes.Clone(k)
		ks, err := index.Uint16String(strconv.Itoa(i))
		if err != nil || !bytes.Equal(ks, k) {
			vk.Fail(t, "C18", test, map[string]any{"uint16": n}, "int-encoder", "Uint16String(%d)=%x,%v differs from Uint16=%x", n, ks, err, k)
		}
		s := int16(n)
		sk := index.Int16(s)
		if other, dup := seen[string(sk)]; dup {
			vk.Fail(t, "C18", test, map[string]any{"int16": s}, "int-encoder", "Int16(%d) and Int16(%d) share key %x", s, other, sk)
		}
		seen[string(sk)] = s
		ss, err := index.Int16String(strconv.Itoa(int(s)))
		if err != nil || !bytes.Equal(ss, sk) {
			vk.Fail(t, "C18", test, map[string]any{"int16": s}, "int-encoder", "Int16String(%d)=%x,%v differs from Int16=%x", s, ss, err, sk)
		}
	}
	rec.Exhaustive(true)
}

type intCase struct {
	A, B uint64
}

func boundaryU64() *rapid.Generator[uint64] {
	return rapid.OneOf(
		rapid.Uint64(),
		rapid.Custom(func(t *rapid.T) uint64 {
			base := rapid.SampledFrom([]uint64{0, 1, 0x7f, 0x80, 0xff, 0x100, 0x7fff, 0x8000, 0xffff, 0x10000, 0x7fffffff, 0x80000000, 0xffffffff, 0x100000000, 0x7fffffffffffffff, 0x8000000000000000, 0xffffffffffffffff}).Draw(t, "base")
			d := rapid.Uint64Range(0, 3).Draw(t, "d")
			if rapid.Bool().Draw(t, "neg") {
				return base - d
			}
			return base + d
		}),
		rapid.Custom(func(t *rapid.T) uint64 {
			// single-byte differences at every byte position
			sh := uint(rapid.IntRange(0, 7).Draw(t, "sh")) * 8
			return uint64(rapid.Byte().Draw(t, "b")) << sh
		}),
	)
}

func sign(x int) int {
	switch {
	case x < 0:
		return -1
	case x > 0:
		return 1
	}
	return 0
}

func cmpU(a, b uint64) int {
	switch {
	case a < b:
		return -1
	case a > b:
		return 1
	}
	return 0
}

func checkInts(c intCase) error {
	a, b := c.A, c.B
	// unsigned: order-preserving
	if got, want := sign(bytes.Compare(index.Uint64(a), index.Uint64(b))), cmpU(a, b); got != want {
		return fmt.Errorf("Uint64 %d vs %d: bytes compare %d, numeric %d", a, b, got, want)
	}
	a32, b32 := uint32(a), uint32(b)
	if got, want := sign(bytes.Compare(index.Uint32(a32), index.Uint32(b32))), cmpU(uint64(a32), uint64(b32)); got != want {
		return fmt.Errorf("Uint32 %d vs %d: bytes compare %d, numeric %d", a32, b32, got, want)
	}
	a16, b16 := uint16(a), uint16(b)
	if got, want := sign(bytes.Compare(index.Uint16(a16), index.Uint16(b16))), cmpU(uint64(a16), uint64(b16)); got != want {
		return fmt.Errorf("Uint16 %d vs %d: bytes compare %d, numeric %d", a16, b16, got, want)
	}
	if len(index.Uint64(a)) != 8 || len(index.Uint32(a32)) != 4 || len(index.Int64(int64(a))) != 8 || len(index.Int32(int32(a))) != 4 || len(index.Int(int(int32(a)))) != 4 {
		return fmt.Errorf("integer key for %d is not fixed width", a)
	}
	// signed: equal <=> equal keys
	if (int64(a) == int64(b)) != bytes.Equal(index.Int64(int64(a)), index.Int64(int64(b))) {
		return fmt.Errorf("Int64 %d vs %d: key equality differs from value equality", int64(a), int64(b))
	}
	if (int32(a) == int32(b)) != bytes.Equal(index.Int32(int32(a)), index.Int32(int32(b))) {
		return fmt.Errorf("Int32 %d vs %d: key equality differs from value equality", int32(a), int32(b))
	}
	// index.Int delegates to Int32: checked on the int32 range only.
	ia, ib := int(int32(a)), int(int32(b))
	if (ia == ib) != bytes.Equal(index.Int(ia), index.Int(ib)) {
		return fmt.Errorf("Int %d vs %d: key equality differs from value equality", ia, ib)
	}
	// decimal-string constructors agree with the typed ones
	if k, err := index.Uint64String(strconv.FormatUint(a, 10)); err != nil || !bytes.Equal(k, index.Uint64(a)) {
		return fmt.Errorf("Uint64String(%d) = %x, %v", a, k, err)
	}
	if k, err := index.Uint32String(strconv.FormatUint(uint64(a32), 10)); err != nil || !bytes.Equal(k, index.Uint32(a32)) {
		return fmt.Errorf("Uint32String(%d) = %x, %v", a32, k, err)
	}
	if k, err := index.Int64String(strconv.FormatInt(int64(a), 10)); err != nil || !bytes.Equal(k, index.Int64(int64(a))) {
		return fmt.Errorf("Int64String(%d) = %x, %v", int64(a), k, err)
	}
	if k, err := index.Int32String(strconv.FormatInt(int64(int32(a)), 10)); err != nil || !bytes.Equal(k, index.Int32(int32(a))) {
		return fmt.Errorf("Int32String(%d) = %x, %v", int32(a), k, err)
	}
	if k, err := index.IntString(strconv.Itoa(ia)); err != nil || !bytes.Equal(k, index.Int(ia)) {
		return fmt.Errorf("IntString(%d) = %x, %v", ia, k, err)
	}
	// decoded value round-trips (injectivity in one direction)
	if binary.BigEndian.Uint64(index.Uint64(a)) != a || binary.BigEndian.Uint32(index.Uint32(a32)) != a32 {
		return fmt.Errorf("big-endian decode of Uint64/Uint32(%d) differs", a)
	}
	return nil
}

func TestC18Ints(t *testing.T) {
	const test = "TestC18Ints"
	if vk.Replaying() {
		var c intCase
		if vk.Replay("C18", test, &c) {
			if err := checkInts(c); err != nil {
				vk.Fail(t, "C18", test, c, "int-encoder", "%v", err)
			}
		}
		return
	}
	rec := vk.NewRecorder("C18", test, "boundary-biased pairs of 64-bit values, truncated to each width: unsigned keys ordered numerically, signed keys equal iff values equal, fixed widths, decimal-string constructors agree; non-trivial = the two values differ; distinct by pair")
	defer rec.Flush()
	rapid.Check(t, func(rt *rapid.T) {
		c := intCase{A: boundaryU64().Draw(rt, "a"), B: boundaryU64().Draw(rt, "b")}
		if rapid.IntRange(0, 3).Draw(rt, "near") == 0 {
			c.B = c.A + uint64(rapid.IntRange(-2, 2).Draw(rt, "delta"))
		}
		rec.Case(c, c.A != c.B)
		if err := checkInts(c); err != nil {
			vk.Fail(rt, "C18", test, c, "int-encoder", "%v", err)
		}
	})
}

type strCase struct {
	A, B []byte
}

func checkStrings(c strCase) error {
	a, b := string(c.A), string(c.B)
	ka, kb := index.String(a), index.String(b)
	if (a == b) != bytes.Equal(ka, kb) {
		return fmt.Errorf("String %q vs %q: key equality differs from value equality", a, b)
	}
	if !bytes.Equal(ka, c.A) {
		return fmt.Errorf("String(%q) = %x", a, ka)
	}
	if k, err := index.FromString(a); err != nil || !bytes.Equal(k, ka) {
		return fmt.Errorf("FromString(%q) = %x, %v", a, k, err)
	}
	for _, v := range []bool{false, true} {
		for _, w := range []bool{false, true} {
			if (v == w) != bytes.Equal(index.Bool(v), index.Bool(w)) {
				return fmt.Errorf("Bool(%v) vs Bool(%v): key equality differs", v, w)
			}
		}
		if k, err := index.BoolString(strconv.FormatBool(v)); err != nil || !bytes.Equal(k, index.Bool(v)) {
			return fmt.Errorf("BoolString(%v) = %x, %v", v, k, err)
		}
	}
	return nil
}

func TestC18Strings(t *testing.T) {
	const test = "TestC18Strings"
	if vk.Replaying() {
		var c strCase
		if vk.Replay("C18", test, &c) {
			if err := checkStrings(c); err != nil {
				vk.Fail(t, "C18", test, c, "string-encoder", "%v", err)
			}
		}
		return
	}
	rec := vk.NewRecorder("C18", test, "pairs of byte strings (second a small edit of the first): String keys equal iff strings equal and equal to the bytes; Bool all four pairs; non-trivial = strings differ; distinct by pair")
	defer rec.Flush()
	rapid.Check(t, func(rt *rapid.T) {
		c := strCase{A: genKey(12).Draw(rt, "a")}
		if rapid.Bool().Draw(rt, "same") {
			c.B = bytes.Clone(c.A)
			if len(c.B) > 0 && rapid.Bool().Draw(rt, "flip") {
				i := rapid.IntRange(0, len(c.B)-1).Draw(rt, "i")
				c.B[i] ^= 1 << uint(rapid.IntRange(0, 7).Draw(rt, "bit"))
			}
		} else {
			c.B = genKey(12).Draw(rt, "b")
		}
		rec.Case(c, !bytes.Equal(c.A, c.B))
		if err := checkStrings(c); err != nil {
			vk.Fail(rt, "C18", test, c, "string-encoder", "%v", err)
		}
	})
}

type lpmCase struct {
	Data []byte
	Len  uint16
}

func checkLPMKey(c lpmCase) error {
	key := lpm.EncodeLPMKey(c.Data, c.Len)
	d, l := lpm.DecodeLPMKey(key)
	if l != c.Len {
		return fmt.Errorf("Decode(Encode(%x,%d)) length = %d", c.Data, c.Len, l)
	}
	n := int(c.Len+7) / 8
	want := bytes.Clone(c.Data[:n])
	if rem := c.Len % 8; rem != 0 {
		want[n-1] &= byte(0xff << (8 - rem))
	}
	if !bytes.Equal(d, want) {
		return fmt.Errorf("Decode(Encode(%x,%d)) data = %x, want %x", c.Data, c.Len, d, want)
	}
	// Equal masked prefixes must give equal keys (bits beyond the prefix are ignored).
	noisy := bytes.Clone(c.Data)
	for i := range noisy {
		bitStart := i * 8
		for b := 0; b < 8; b++ {
			if bitStart+b >= int(c.Len) {
				noisy[i] ^= 1 << uint(7-b)
			}
		}
	}
	if k2 := lpm.EncodeLPMKey(noisy, c.Len); !bytes.Equal(k2, key) {
		return fmt.Errorf("Encode(%x,%d)=%x but Encode(%x,%d)=%x (bits beyond the prefix leak)", c.Data, c.Len, key, noisy, c.Len, k2)
	}
	return nil
}

func TestC18LPMKeysExhaustive(t *testing.T) {
	const test = "TestC18LPMKeysExhaustive"
	if vk.Replaying() {
		var c lpmCase
		if vk.Replay("C18", test, &c) {
			if err := checkLPMKey(c); err != nil {
				vk.Fail(t, "C18", test, c, "lpm-key", "%v", err)
			}
		}
		return
	}
	rec := vk.NewRecorder("C18", test, "all 65536 two-byte data values x prefix lengths 0..16: Decode(Encode(d,l)) = (d masked to l bits, truncated, l) and bits beyond l are ignored; non-trivial = l not a multiple of 8 (masking inside a byte); distinct by (d,l)")
	defer rec.Flush()
	for d := 0; d <= 0xffff; d++ {
		for l := 0; l <= 16; l++ {
			c := lpmCase{Data: []byte{byte(d >> 8), byte(d)}, Len: uint16(l)}
			rec.CaseKey(uint64(d)*32+uint64(l), l%8 != 0, func() any { return c })
			if err := checkLPMKey(c); err != nil {
				vk.Fail(t, "C18", test, c, "lpm-key", "%v", err)
			}
		}
	}
	rec.Exhaustive(true)
}

func TestC18LPMKeysRandom(t *testing.T) {
	const test = "TestC18LPMKeysRandom"
	if vk.Replaying() {
		var c lpmCase
		if vk.Replay("C18", test, &c) {
			if err := checkLPMKey(c); err != nil {
				vk.Fail(t, "C18", test, c, "lpm-key", "%v", err)
			}
		}
		return
	}
	rec := vk.NewRecorder("C18", test, "random data of 0..16 bytes and any prefix length the data can hold, plus netip prefixes through NetIPPrefixToIndexKey; non-trivial = length not a multiple of 8; distinct by (data,len)")
	defer rec.Flush()
	rapid.Check(t, func(rt *rapid.T) {
		data := rapid.SliceOfN(rapid.Byte(), 0, 16).Draw(rt, "data")
		l := uint16(rapid.IntRange(0, len(data)*8).Draw(rt, "len"))
		c := lpmCase{Data: data, Len: l}
		rec.Case(c, l%8 != 0)
		if err := checkLPMKey(c); err != nil {
			vk.Fail(rt, "C18", test, c, "lpm-key", "%v", err)
		}
		// netip form: 16-byte data, IPv4 mapped into ::ffff:0:0/96.
		if len(data) >= 4 {
			a4 := netip.AddrFrom4([4]byte(data[:4]))
			bits := int(l) % 33
			p := netip.PrefixFrom(a4, bits)
			k := lpm.NetIPPrefixToIndexKey(p)
			d, pl := lpm.DecodeLPMKey(k)
			a16 := p.Masked().Addr().As16()
			wantLen := uint16(bits + 96)
			if pl != wantLen || !bytes.Equal(d, a16[:(wantLen+7)/8]) {
				vk.Fail(rt, "C18", test, c, "lpm-key", "NetIPPrefixToIndexKey(%v) decodes to (%x,%d), want (%x,%d)", p, d, pl, a16[:(wantLen+7)/8], wantLen)
			}
		}
	})
}

type ipCase struct {
	A, B [16]byte
	V4   bool
	Bits int
}

func checkNetIP(c ipCase) error {
	var a, b netip.Addr
	if c.V4 {
		a, b = netip.AddrFrom4([4]byte(c.A[:4])), netip.AddrFrom4([4]byte(c.B[:4]))
	} else {
		a, b = netip.AddrFrom16(c.A), netip.AddrFrom16(c.B)
		if a.Is4In6() || b.Is4In6() {
			return nil // an IPv4-mapped IPv6 address and the IPv4 address share a key by design
		}
	}
	ka, kb := index.NetIPAddr(a), index.NetIPAddr(b)
	if len(ka) != 16 || len(kb) != 16 {
		return fmt.Errorf("NetIPAddr key is not 16 bytes")
	}
	if (a == b) != bytes.Equal(ka, kb) {
		return fmt.Errorf("NetIPAddr %v vs %v: key equality differs from value equality", a, b)
	}
	if k, err := index.NetIPAddrString(a.String()); err != nil || !bytes.Equal(k, ka) {
		return fmt.Errorf("NetIPAddrString(%v) = %x, %v", a, k, err)
	}
	if !bytes.Equal(index.NetIP(a.AsSlice()), ka) {
		return fmt.Errorf("NetIP(%v) differs from NetIPAddr", a)
	}
	max := 128
	if c.V4 {
		max = 32
	}
	bits := ((c.Bits % (max + 1)) + max + 1) % (max + 1)
	pa, pb := netip.PrefixFrom(a, bits), netip.PrefixFrom(b, bits)
	if (pa.Masked() == pb.Masked()) != bytes.Equal(index.NetIPPrefix(pa), index.NetIPPrefix(pb)) {
		return fmt.Errorf("NetIPPrefix %v vs %v: key equality differs from equality of the masked prefixes", pa, pb)
	}
	if k, err := index.NetIPPrefixString(pa.String()); err != nil || !bytes.Equal(k, index.NetIPPrefix(pa)) {
		return fmt.Errorf("NetIPPrefixString(%v) = %x, %v", pa, k, err)
	}
	return nil
}

func TestC18NetIP(t *testing.T) {
	const test = "TestC18NetIP"
	if vk.Replaying() {
		var c ipCase
		if vk.Replay("C18", test, &c) {
			if err := checkNetIP(c); err != nil {
				vk.Fail(t, "C18", test, c, "netip-encoder", "%v", err)
			}
		}
		return
	}
	rec := vk.NewRecorder("C18", test, "pairs of IPv4 or IPv6 addresses (second a small edit of the first) and a prefix length: NetIPAddr/NetIP keys are 16 bytes and equal iff the addresses are equal (within one family; IPv4-mapped IPv6 excluded), NetIPPrefix keys equal iff the masked prefixes are equal, string constructors agree; non-trivial = the addresses differ; distinct by case")
	defer rec.Flush()
	rapid.Check(t, func(rt *rapid.T) {
		var c ipCase
		copy(c.A[:], rapid.SliceOfN(rapid.Byte(), 16, 16).Draw(rt, "a"))
		c.B = c.A
		if rapid.Bool().Draw(rt, "edit") {
			i := rapid.IntRange(0, 15).Draw(rt, "i")
			c.B[i] ^= 1 << uint(rapid.IntRange(0, 7).Draw(rt, "bit"))
		}
		c.V4 = rapid.Bool().Draw(rt, "v4")
		c.Bits = rapid.IntRange(0, 128).Draw(rt, "bits")
		rec.Case(c, c.A != c.B)
		if err := checkNetIP(c); err != nil {
			vk.Fail(rt, "C18", test, c, "netip-encoder", "%v", err)
		}
	})
}
