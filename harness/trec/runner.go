//go:build verif

// Package trec decides C14-C16: the reconciler, run inside a synctest bubble
// against a mock target with generated fault plans, op durations and injected
// table writes.
package trec

import (
	"context"
	"sync/atomic"
	"errors"
	"fmt"
	"iter"
	"log/slog"
	"runtime"
	"sort"
	"sync"
	"testing"
	"testing/synctest"
	"time"

	"github.com/cilium/hive"
	"github.com/cilium/hive/cell"
	"github.com/cilium/hive/job"
	"github.com/cilium/statedb"
	"github.com/cilium/statedb/index"
	"github.com/cilium/statedb/reconciler"
	"golang.org/x/time/rate"
)

// ------------------------------------------------------------------ case

const (
	stUpsert     = iota // insert or update the object's data with Pending status
	stDelete            // delete the object
	stDelReinsert       // delete and re-insert (new data, Pending) in one transaction
	stInsertDone        // insert/update the data with status Done (needs no reconciliation)
	stStatusOnly        // a second reconciler's status-only write (data and pending id unchanged)
	stPrune             // Reconciler.Prune()
	stInitDone          // complete the next pending initializer
	stInsertUnset       // insert/update the data with a zero status (the object is not handed to this reconciler)
	numStepKinds
)

var stepNames = []string{"upsert", "delete", "delete+reinsert", "insertDone", "statusOnly", "prune", "initDone", "insertUnset"}

type Step struct {
	After int `json:"after"` // virtual ms after the previous step
	Kind  int `json:"kind"`
	ID    int `json:"id"`
}

// Inj: what the mock does while an Update/Delete call is in flight.
type Inj struct {
	DelayMs int `json:"delay,omitempty"` // virtual duration of the call
	Kind    int `json:"kind,omitempty"`  // 0 none; otherwise a Step kind+1 applied to the object being reconciled
}

type Wait struct {
	AtMs int `json:"at"`  // when the side goroutine calls WaitUntilReconciled
	Rev  int `json:"rev"` // index into the user-write revisions known at that time (mod)
}

type Case struct {
	RoundSize   int   `json:"roundSize"`
	RoundMs     int   `json:"roundMs"`    // rate limiter interval between rounds
	BackoffMin  int   `json:"backoffMin"` // ms
	BackoffMult int   `json:"backoffMult"` // max = min * mult
	Batch       bool  `json:"batch"`
	PruneMs     int   `json:"pruneMs"` // 0 = pruning off
	RefreshMs   int   `json:"refreshMs,omitempty"` // 0 = refreshing off
	Inits       int   `json:"inits"`   // initializers registered before the hive starts
	Script      []Step `json:"script"`
	// Faults[id][op] = outcomes of successive calls (true = fail); afterwards success.
	FailUpdate map[int][]bool `json:"failUpdate,omitempty"`
	FailDelete map[int][]bool `json:"failDelete,omitempty"`
	Inject     []Inj          `json:"inject,omitempty"` // consumed call by call (cyclic off: after the list, no injection)
	// HookInject: user writes performed at the wtxn.beforeLock hook of write
	// transactions opened by the reconciler's own goroutines (status commit,
	// refresher, ...), i.e. after they decided to write and before they hold
	// the table lock. Consumed one per such transaction; Kind < 0 = none.
	HookInject []Step `json:"hookInject,omitempty"`
	Waits      []Wait         `json:"waits,omitempty"`
	// KeyMode: how an object id becomes the primary key. 0 = index.Uint64
	// (fixed width); 1 = variable-length byte strings that are prefixes of
	// each other and include the empty key (see keyOf).
	KeyMode int `json:"keyMode,omitempty"`
}

// ------------------------------------------------------------------ object

type RObj struct {
	ID       uint64
	Val      int // user data
	Gen      int // bumped by every user data write to this ID
	Statuses reconciler.StatusSet
}

func (o *RObj) TableHeader() []string { return []string{"ID", "Val", "Gen", "Status"} }
func (o *RObj) TableRow() []string {
	return []string{fmt.Sprint(o.ID), fmt.Sprint(o.Val), fmt.Sprint(o.Gen), o.Statuses.String()}
}
func (o *RObj) Clone() *RObj { c := *o; return &c }

const recName = "a"

func getStatus(o *RObj) reconciler.Status { return o.Statuses.Get(recName) }
func setStatus(o *RObj, s reconciler.Status) *RObj {
	o.Statuses = o.Statuses.Set(recName, s)
	return o
}

// keyMode is set per case before the table is created (cases of one test
// process run one after the other).
var keyMode atomic.Int32

var varKeys = [][]byte{{}, {0}, {0, 0}, {'a'}, {'a', 0}, {0xff}, {0, 1}, {'a', 'a'}}

// keyOf: the primary key of object id. In mode 1 ids 1..8 get short keys
// that are prefixes of each other, id 1 the empty key.
func keyOf(id uint64) index.Key {
	if keyMode.Load() == 1 {
		if id >= 1 && int(id) <= len(varKeys) {
			return index.Key(varKeys[id-1])
		}
		return append(index.Key{'k'}, index.Uint64(id)...)
	}
	return index.Uint64(id)
}

var idIndex = statedb.Index[*RObj, uint64]{
	Name:       "id",
	FromObject: func(o *RObj) index.KeySet { return index.NewKeySet(keyOf(o.ID)) },
	FromKey:    keyOf,
	Unique:     true,
}

// ------------------------------------------------------------------ log

type call struct {
	Seq      int
	Op       string // "update" | "delete" | "prune"
	ID       uint64
	Val, Gen int
	Rev      statedb.Revision
	Start    time.Duration
	End      time.Duration
	Fail     bool
	Kind     string // status kind of the object handed to Update
	Batch    bool
	Inj      int
}

func (c call) String() string {
	return fmt.Sprintf("#%d %s id=%d val=%d gen=%d rev=%d [%v..%v] fail=%v status=%s inj=%d", c.Seq, c.Op, c.ID, c.Val, c.Gen, c.Rev, c.Start, c.End, c.Fail, c.Kind, c.Inj)
}

type userWrite struct {
	At      time.Duration
	Kind    int
	ID      uint64
	Rev     statedb.Revision // table revision after the write (revision of the object / deletion)
	Gen     int
	Deleted bool
	Pending bool
}

// version: one committed state of one object, recorded at commit.rootStored.
type version struct {
	At      time.Duration
	ByUser  bool
	ID      uint64
	Val     int
	Gen     int
	Kind    reconciler.StatusKind
	Rev     statedb.Revision
	Present bool
	Other   reconciler.StatusKind // status recorded for the second reconciler "b" (set by status-only writes)
	Prev    *version              // the committed version of the object this one replaced
}

type waitObs struct {
	At, Ret  time.Duration
	Arg      statedb.Revision
	Rev, Low statedb.Revision
	Err      error
}

type world struct {
	c     Case
	start time.Time
	db    *statedb.DB
	table statedb.RWTable[*RObj]
	rec   reconciler.Reconciler[*RObj]

	mu       sync.Mutex
	calls    []call
	writes   []userWrite
	history  []version // per-commit object versions (only changes)
	last     map[uint64]version
	target   map[uint64]int // simulated target: id -> val
	lastOpOK map[uint64]string
	gens     map[uint64]int
	failU    map[int][]bool
	failD    map[int][]bool
	injIdx   int
	userG    uint64 // goroutine id currently performing a user write (0 = none)
	waits    []waitObs
	initFns  []func(statedb.WriteTxn)
	initDoneAt time.Duration
	initialized bool
	pruneCalls []pruneObs
	probes     []probeObs
	started    atomic.Bool
	hookBusy   map[uint64]bool
	hookIdx    int
	hookInjected int
	viol     []string // violations detected inside mocks/hooks
	inflight int
}

type pruneObs struct {
	At       time.Duration
	InitNow  bool
	Complete bool
	Detail   string
}

func (w *world) now() time.Duration { return time.Since(w.start) }

func gid() uint64 {
	var buf [64]byte
	n := runtime.Stack(buf[:], false)
	var id uint64
	for _, b := range buf[len("goroutine "):n] {
		if b < '0' || b > '9' {
			break
		}
		id = id*10 + uint64(b-'0')
	}
	return id
}

// ------------------------------------------------------------------ user writes

func (w *world) pendingSet(old *RObj) reconciler.StatusSet {
	if old == nil {
		return reconciler.NewStatusSet()
	}
	return old.Statuses.Pending()
}

// apply performs one user write (from the script or injected by a mock).
func (w *world) apply(kind int, id uint64) {
	w.mu.Lock()
	w.userG = gid()
	w.mu.Unlock()
	defer func() {
		w.mu.Lock()
		w.userG = 0
		w.mu.Unlock()
	}()
	switch kind {
	case stPrune:
		w.rec.Prune()
		return
	case stInitDone:
		w.mu.Lock()
		var fn func(statedb.WriteTxn)
		if len(w.initFns) > 0 {
			fn = w.initFns[0]
			w.initFns = w.initFns[1:]
		}
		w.mu.Unlock()
		if fn == nil {
			return
		}
		wtxn := w.db.WriteTxn(w.table)
		fn(wtxn)
		w.mu.Lock()
		if len(w.initFns) == 0 {
			// the commit below completes initialization at this virtual instant
			w.initialized = true
			w.initDoneAt = w.now()
		}
		w.mu.Unlock()
		wtxn.Commit()
		return
	}
	wtxn := w.db.WriteTxn(w.table)
	old, _, found := w.table.Get(wtxn, idIndex.Query(id))
	uw := userWrite{At: w.now(), Kind: kind, ID: id}
	w.mu.Lock()
	gen := w.gens[id]
	w.mu.Unlock()
	switch kind {
	case stUpsert:
		gen++
		var o *RObj
		if found {
			o = old.Clone()
			o.Statuses = o.Statuses.Pending()
		} else {
			o = &RObj{ID: id, Statuses: reconciler.NewStatusSet()}
		}
		o.Val, o.Gen = gen*10+int(id), gen
		w.table.Insert(wtxn, o)
		uw.Pending = true
	case stDelete:
		if !found {
			wtxn.Abort()
			return
		}
		w.table.Delete(wtxn, old)
		uw.Deleted = true
	case stDelReinsert:
		if found {
			w.table.Delete(wtxn, old)
		}
		gen++
		o := &RObj{ID: id, Val: gen*10 + int(id), Gen: gen, Statuses: reconciler.NewStatusSet()}
		w.table.Insert(wtxn, o)
		uw.Pending = true
	case stInsertDone:
		gen++
		o := &RObj{ID: id, Val: gen*10 + int(id), Gen: gen}
		o.Statuses = reconciler.NewStatusSet().Set(recName, reconciler.StatusDone())
		w.table.Insert(wtxn, o)
	case stInsertUnset:
		gen++
		o := &RObj{ID: id, Val: gen*10 + int(id), Gen: gen}
		o.Statuses = reconciler.NewStatusSet().Set(recName, reconciler.Status{})
		w.table.Insert(wtxn, o)
	case stStatusOnly:
		if !found {
			wtxn.Abort()
			return
		}
		o := old.Clone()
		o.Statuses = o.Statuses.Set("b", reconciler.StatusDone())
		w.table.Insert(wtxn, o)
	}
	uw.Rev = w.table.Revision(wtxn)
	uw.Gen = gen
	w.mu.Lock()
	w.gens[id] = gen
	w.writes = append(w.writes, uw)
	w.mu.Unlock()
	wtxn.Commit()
}

// probe: at a quiescent instant with no operation in flight, ask the
// reconciler for its progress (returns at once with revision 0).
type probeObs struct {
	At       time.Duration
	Rev, Low statedb.Revision
	NCalls   int
	NWrites  int
}

func (w *world) probe() {
	w.mu.Lock()
	inflight, ncalls, nwrites := w.inflight, len(w.calls), len(w.writes)
	w.mu.Unlock()
	if inflight != 0 {
		return
	}
	ctx, cancel := context.WithCancel(context.Background())
	rev, low, err := w.rec.WaitUntilReconciled(ctx, 0)
	cancel()
	if err != nil {
		return
	}
	w.mu.Lock()
	w.probes = append(w.probes, probeObs{At: w.now(), Rev: rev, Low: low, NCalls: ncalls, NWrites: nwrites})
	w.mu.Unlock()
}

// ------------------------------------------------------------------ hook: record every committed state

func (w *world) onHook(point string, db *statedb.DB) {
	if point == "wtxn.beforeLock" && w.started.Load() {
		g := gid()
		w.mu.Lock()
		mine := w.userG == g || w.hookBusy[g]
		var st *Step
		if !mine && w.hookIdx < len(w.c.HookInject) {
			st = &w.c.HookInject[w.hookIdx]
			w.hookIdx++
		}
		if st != nil && st.Kind >= 0 {
			w.hookBusy[g] = true
		}
		w.mu.Unlock()
		if st != nil && st.Kind >= 0 {
			w.apply(st.Kind, uint64(st.ID))
			w.mu.Lock()
			delete(w.hookBusy, g)
			w.hookInjected++
			w.mu.Unlock()
		}
		return
	}
	if point != "commit.rootStored" || w.table == nil {
		return
	}
	g := gid()
	rtxn := w.db.ReadTxn()
	w.mu.Lock()
	defer w.mu.Unlock()
	byUser := w.userG == g
	seen := map[uint64]bool{}
	for o, rev := range w.table.All(rtxn) {
		seen[o.ID] = true
		v := version{At: w.now(), ByUser: byUser, ID: o.ID, Val: o.Val, Gen: o.Gen, Kind: getStatus(o).Kind, Rev: rev, Present: true, Other: o.Statuses.Get("b").Kind}
		if prev, ok := w.last[o.ID]; ok && prev.Rev == rev && prev.Present {
			continue
		}
		if prev, ok := w.last[o.ID]; ok {
			p := prev
			p.Prev = nil
			v.Prev = &p
		}
		w.last[o.ID] = v
		w.history = append(w.history, v)
	}
	for id, prev := range w.last {
		if prev.Present && !seen[id] {
			v := version{At: w.now(), ByUser: byUser, ID: id, Present: false, Gen: prev.Gen}
			w.last[id] = v
			w.history = append(w.history, v)
		}
	}
}

// ------------------------------------------------------------------ mock operations

type ops struct{ w *world }

func (m *ops) begin(op string, o *RObj, rev statedb.Revision, batch bool) (int, Inj) {
	w := m.w
	w.mu.Lock()
	defer w.mu.Unlock()
	c := call{Seq: len(w.calls), Op: op, ID: o.ID, Val: o.Val, Gen: o.Gen, Rev: rev, Start: w.now(), Kind: getStatus(o).Kind.String(), Batch: batch}
	var inj Inj
	if w.injIdx < len(w.c.Inject) {
		inj = w.c.Inject[w.injIdx]
		w.injIdx++
	}
	c.Inj = inj.Kind
	w.calls = append(w.calls, c)
	w.inflight++
	return c.Seq, inj
}

func (m *ops) finish(seq int, o *RObj, del bool) error {
	w := m.w
	w.mu.Lock()
	defer w.mu.Unlock()
	w.inflight--
	plan := w.failU
	if del {
		plan = w.failD
	}
	fail := false
	if l := plan[int(o.ID)]; len(l) > 0 {
		fail = l[0]
		plan[int(o.ID)] = l[1:]
	}
	w.calls[seq].End = w.now()
	w.calls[seq].Fail = fail
	if fail {
		return errors.New("injected failure")
	}
	if del {
		delete(w.target, o.ID)
		w.lastOpOK[o.ID] = "delete"
	} else {
		w.target[o.ID] = o.Val
		w.lastOpOK[o.ID] = fmt.Sprintf("update:%d", o.Val)
	}
	return nil
}

func (m *ops) during(inj Inj, o *RObj) {
	if inj.DelayMs > 0 {
		time.Sleep(time.Duration(inj.DelayMs) * time.Millisecond)
	}
	if inj.Kind > 0 {
		m.w.apply(inj.Kind-1, o.ID)
	}
}

func (m *ops) Update(ctx context.Context, txn statedb.ReadTxn, rev statedb.Revision, o *RObj) error {
	seq, inj := m.begin("update", o, rev, false)
	m.during(inj, o)
	return m.finish(seq, o, false)
}

func (m *ops) Delete(ctx context.Context, txn statedb.ReadTxn, rev statedb.Revision, o *RObj) error {
	seq, inj := m.begin("delete", o, rev, false)
	m.during(inj, o)
	return m.finish(seq, o, true)
}

func (m *ops) Prune(ctx context.Context, txn statedb.ReadTxn, objs iter.Seq2[*RObj, statedb.Revision]) error {
	w := m.w
	var got, want []string
	for o, rev := range objs {
		got = append(got, fmt.Sprintf("%d@%d", o.ID, rev))
	}
	for o, rev := range w.table.All(txn) {
		want = append(want, fmt.Sprintf("%d@%d", o.ID, rev))
	}
	initTxn, _ := w.table.Initialized(txn)
	initNow, _ := w.table.Initialized(w.db.ReadTxn())
	w.mu.Lock()
	defer w.mu.Unlock()
	w.calls = append(w.calls, call{Seq: len(w.calls), Op: "prune", Start: w.now(), End: w.now()})
	w.pruneCalls = append(w.pruneCalls, pruneObs{At: w.now(), InitNow: initTxn && initNow, Complete: fmt.Sprint(got) == fmt.Sprint(want), Detail: fmt.Sprintf("got %v, table %v", got, want)})
	return nil
}

type batchOps struct{ m *ops }

func (b *batchOps) UpdateBatch(ctx context.Context, txn statedb.ReadTxn, batch []reconciler.BatchEntry[*RObj]) {
	for i := range batch {
		seq, inj := b.m.begin("update", batch[i].Object, batch[i].Revision, true)
		b.m.during(inj, batch[i].Object)
		batch[i].Result = b.m.finish(seq, batch[i].Object, false)
	}
}

func (b *batchOps) DeleteBatch(ctx context.Context, txn statedb.ReadTxn, batch []reconciler.BatchEntry[*RObj]) {
	for i := range batch {
		seq, inj := b.m.begin("delete", batch[i].Object, batch[i].Revision, true)
		b.m.during(inj, batch[i].Object)
		batch[i].Result = b.m.finish(seq, batch[i].Object, true)
	}
}

// ------------------------------------------------------------------ run

type result struct {
	err        error
	sig        string
	nontrivial bool
	classes    []string
}

func (c Case) backoffMin() time.Duration { return time.Duration(max(1, c.BackoffMin)) * time.Millisecond }
func (c Case) backoffMax() time.Duration {
	return c.backoffMin() * time.Duration(max(1, c.BackoffMult))
}
func (c Case) roundInterval() time.Duration { return time.Duration(max(1, c.RoundMs)) * time.Millisecond }

// settleBound: virtual time after which everything must have converged once
// the script is over and all fault lists are exhausted.
func (c Case) settleBound() time.Duration {
	longest := 0
	for _, l := range c.FailUpdate {
		longest = max(longest, len(l))
	}
	for _, l := range c.FailDelete {
		longest = max(longest, len(l))
	}
	var delays time.Duration
	for _, i := range c.Inject {
		delays += time.Duration(i.DelayMs) * time.Millisecond
	}
	per := c.backoffMax() + 20*c.roundInterval() + delays
	return time.Duration(longest+len(c.Inject)+4)*per + time.Second
}

func run(t *testing.T, c Case, check func(w *world) (string, error)) (res result) {
	synctest.Test(t, func(*testing.T) {
		res = runInBubble(c, check)
	})
	return
}

func runInBubble(c Case, check func(w *world) (string, error)) (res result) {
	w := &world{c: c, start: time.Now(), last: map[uint64]version{}, target: map[uint64]int{}, lastOpOK: map[uint64]string{}, gens: map[uint64]int{}, failU: map[int][]bool{}, failD: map[int][]bool{}, hookBusy: map[uint64]bool{}}
	for k, v := range c.FailUpdate {
		w.failU[k] = append([]bool(nil), v...)
	}
	for k, v := range c.FailDelete {
		w.failD[k] = append([]bool(nil), v...)
	}
	m := &ops{w: w}
	var bops reconciler.BatchOperations[*RObj]
	if c.Batch {
		bops = &batchOps{m}
	}
	statedb.VerifSetHook(w.onHook)
	defer statedb.VerifSetHook(nil)
	opts := []reconciler.Option{
		reconciler.WithRetry(c.backoffMin(), c.backoffMax()),
		reconciler.WithRoundLimits(max(1, c.RoundSize), rate.NewLimiter(rate.Every(c.roundInterval()), 1)),
	}
	if c.RefreshMs > 0 {
		opts = append(opts, reconciler.WithRefreshing(time.Duration(c.RefreshMs)*time.Millisecond, nil))
	} else {
		opts = append(opts, reconciler.WithRefreshing(0, nil))
	}
	if c.PruneMs > 0 {
		opts = append(opts, reconciler.WithPruning(time.Duration(c.PruneMs)*time.Millisecond))
	} else {
		opts = append(opts, reconciler.WithoutPruning())
	}
	h := hive.New(
		statedb.Cell,
		job.Cell,
		cell.Provide(
			cell.NewSimpleHealth,
			reconciler.NewUnpublishedExpVarMetrics,
			func(r job.Registry, h cell.Health) job.Group { return r.NewGroup(h) },
		),
		cell.Invoke(func(db *statedb.DB) (err error) {
			w.db = db
			keyMode.Store(int32(c.KeyMode))
			w.table, err = statedb.NewTable[*RObj](db, "robjs", idIndex)
			if err != nil {
				return err
			}
			if c.Inits > 0 {
				wtxn := db.WriteTxn(w.table)
				for i := 0; i < c.Inits; i++ {
					w.initFns = append(w.initFns, w.table.RegisterInitializer(wtxn, fmt.Sprintf("init%d", i)))
				}
				wtxn.Commit()
			} else {
				w.initialized = true
			}
			return nil
		}),
		cell.Module("test", "test",
			cell.Invoke(func(params reconciler.Params) error {
				var err error
				w.rec, err = reconciler.Register(params, w.table, (*RObj).Clone, setStatus, getStatus, m, bops, opts...)
				return err
			}),
		),
	)
	log := slog.New(slog.DiscardHandler)
	if err := h.Start(log, context.Background()); err != nil {
		res.sig, res.err = "infra", fmt.Errorf("hive start: %v", err)
		return
	}
	w.started.Store(true)
	stopped := false
	stop := func() {
		if !stopped {
			stopped = true
			h.Stop(log, context.Background())
		}
	}
	defer stop()

	// side goroutines calling WaitUntilReconciled
	waitCtx, cancelWaits := context.WithCancel(context.Background())
	var wg sync.WaitGroup
	for _, ws := range c.Waits {
		wg.Add(1)
		go func(ws Wait) {
			defer wg.Done()
			time.Sleep(time.Duration(ws.AtMs) * time.Millisecond)
			w.mu.Lock()
			var arg statedb.Revision
			if len(w.writes) > 0 {
				arg = w.writes[((ws.Rev%len(w.writes))+len(w.writes))%len(w.writes)].Rev
			}
			w.mu.Unlock()
			at := w.now()
			rev, low, err := w.rec.WaitUntilReconciled(waitCtx, arg)
			w.mu.Lock()
			w.waits = append(w.waits, waitObs{At: at, Ret: w.now(), Arg: arg, Rev: rev, Low: low, Err: err})
			w.mu.Unlock()
		}(ws)
	}

	for _, s := range c.Script {
		time.Sleep(time.Duration(s.After) * time.Millisecond)
		synctest.Wait()
		w.probe()
		w.apply(s.Kind, uint64(s.ID))
	}
	// complete the remaining initializers so that convergence and pruning can happen
	for len(w.initFns) > 0 {
		time.Sleep(time.Millisecond)
		w.apply(stInitDone, 0)
	}
	time.Sleep(c.settleBound())
	synctest.Wait()
	cancelWaits()
	wg.Wait()

	sig, err := check(w)
	if err == nil && len(w.viol) > 0 {
		sig, err = "mock", errors.New(w.viol[0])
	}
	res.sig, res.err = sig, err
	res.classes, res.nontrivial = classify(w)
	return res
}

// classify computes the coverage classes of a finished run.
func classify(w *world) ([]string, bool) {
	cl := map[string]bool{}
	perID := map[uint64][]call{}
	for _, c := range w.calls {
		if c.Op == "prune" {
			cl["prune_called"] = true
			continue
		}
		perID[c.ID] = append(perID[c.ID], c)
		if c.Fail {
			cl["failed_"+c.Op] = true
			if w.c.KeyMode == 1 && c.ID == 1 {
				cl["failed_op_on_empty_primary_key"] = true
			}
		}
		if w.c.KeyMode == 1 {
			cl["variable_length_primary_keys"] = true
		}
		if c.Inj > 0 {
			cl["inject_"+stepNames[c.Inj-1]] = true
		}
		if c.Batch {
			cl["batch_ops"] = true
		}
	}
	// failed op followed by a change of the same object before its retry
	for id, cs := range perID {
		for i, c := range cs {
			if !c.Fail {
				continue
			}
			for _, uw := range w.writes {
				if uw.ID == id && uw.At >= c.End && (i+1 >= len(cs) || uw.At <= cs[i+1].Start) {
					cl["change_after_failure_before_retry"] = true
					if c.Op == "delete" && !uw.Deleted {
						cl["failed_delete_then_reinsert"] = true
					}
				}
			}
			if i+1 < len(cs) && cs[i+1].Fail {
				cl["consecutive_failures"] = true
			}
		}
	}
	// user write while an op was in flight
	for _, uw := range w.writes {
		for _, c := range w.calls {
			if c.Op != "prune" && uw.At > c.Start && uw.At < c.End {
				cl["write_while_op_in_flight"] = true
			}
		}
	}
	if w.hookInjected > 0 {
		cl["write_injected_before_reconciler_txn"] = true
	}
	if len(w.gens) > max(1, w.c.RoundSize) {
		cl["more_objects_than_round_size"] = true
	}
	out := make([]string, 0, len(cl))
	for k := range cl {
		out = append(out, k)
	}
	sort.Strings(out)
	nt := cl["change_after_failure_before_retry"] || cl["failed_delete_then_reinsert"] || (cl["more_objects_than_round_size"] && (cl["failed_update"] || cl["failed_delete"]))
	return out, nt
}
