//go:build verif

package trec

import (
	"context"
	"fmt"
	"testing"
	"time"

	"github.com/cilium/statedb"
	"github.com/cilium/statedb/reconciler"
	"pgregory.net/rapid"

	"verifharness/vk"
)

// ------------------------------------------------------------------ generators

type profile struct {
	stepKinds []int
	injKinds  []int // 0 = none, k+1 = step kind k
	maxFaults int
	waits     bool
	prune     bool
	inits     bool
	refresh   bool
	hookInj   bool
	maxID     int
	failBias  bool  // fault lists are mostly failures (long failure streaks)
	afters    []int // gaps between script steps (ms)
}

func genCase(t *rapid.T, p profile) Case {
	c := Case{
		RoundSize:   rapid.IntRange(1, 5).Draw(t, "roundSize"),
		RoundMs:     rapid.SampledFrom([]int{1, 5, 10}).Draw(t, "roundMs"),
		BackoffMin:  rapid.SampledFrom([]int{1, 5, 10, 50}).Draw(t, "backoffMin"),
		BackoffMult: rapid.SampledFrom([]int{1, 2, 4, 8, 64}).Draw(t, "backoffMult"),
		Batch:       rapid.Bool().Draw(t, "batch"),
		KeyMode:     rapid.SampledFrom([]int{0, 0, 1}).Draw(t, "keyMode"),
	}
	if p.prune && rapid.Bool().Draw(t, "pruneOn") {
		c.PruneMs = rapid.SampledFrom([]int{20, 100, 1000}).Draw(t, "pruneMs")
	}
	if p.inits {
		c.Inits = rapid.IntRange(0, 2).Draw(t, "inits")
	}
	if p.refresh {
		c.RefreshMs = rapid.SampledFrom([]int{0, 0, 50, 300}).Draw(t, "refreshMs")
	}
	afters := p.afters
	if afters == nil {
		afters = []int{0, 0, 1, 3, 5, 10, 20, 50, 200}
	}
	step := rapid.Custom(func(t *rapid.T) Step {
		return Step{
			After: rapid.SampledFrom(afters).Draw(t, "after"),
			Kind:  rapid.SampledFrom(p.stepKinds).Draw(t, "kind"),
			ID:    rapid.IntRange(1, p.maxID).Draw(t, "id"),
		}
	})
	c.Script = vk.Ops(t, step, 10, "script")
	outcome := rapid.Bool()
	if p.failBias {
		outcome = rapid.SampledFrom([]bool{true, true, true, false})
	}
	outcomes := rapid.SliceOfN(outcome, 0, p.maxFaults)
	nFaulty := rapid.IntRange(0, p.maxID).Draw(t, "nFaulty")
	for i := 0; i < nFaulty; i++ {
		id := rapid.IntRange(1, p.maxID).Draw(t, "faultyID")
		if rapid.Bool().Draw(t, "faultOnUpdate") {
			if c.FailUpdate == nil {
				c.FailUpdate = map[int][]bool{}
			}
			c.FailUpdate[id] = outcomes.Draw(t, "outcomes")
		} else {
			if c.FailDelete == nil {
				c.FailDelete = map[int][]bool{}
			}
			c.FailDelete[id] = outcomes.Draw(t, "outcomes")
		}
	}
	inj := rapid.Custom(func(t *rapid.T) Inj {
		return Inj{
			DelayMs: rapid.SampledFrom([]int{0, 0, 0, 2, 10, 30}).Draw(t, "delay"),
			Kind:    rapid.SampledFrom(p.injKinds).Draw(t, "injKind"),
		}
	})
	c.Inject = rapid.SliceOfN(inj, 0, 12).Draw(t, "inject")
	if rapid.IntRange(0, 5).Draw(t, "family") == 0 {
		// synchronised failures: k objects are written at the same instant and
		// all fail their first attempts, so their retries fall due together
		// (one round pops several retry items); some of the retries are hit by
		// a change of the object while in flight (the status commit of the
		// failed retry is then dropped), others fail again and are re-queued.
		k := rapid.IntRange(2, min(3, p.maxID)).Draw(t, "syncK")
		c.RoundSize = 5
		var pre []Step
		for id := 1; id <= k; id++ {
			pre = append(pre, Step{After: 0, Kind: stUpsert, ID: id})
		}
		for i := range c.Script {
			if c.Script[i].After < 200 {
				c.Script[i].After = 200
			}
		}
		c.Script = append(pre, c.Script...)
		c.FailUpdate = map[int][]bool{}
		for id := 1; id <= k; id++ {
			c.FailUpdate[id] = append([]bool{true, true}, rapid.SliceOfN(rapid.Bool(), 0, 2).Draw(t, "moreFails")...)
		}
		c.Inject = make([]Inj, k)
		later := rapid.Custom(func(t *rapid.T) Inj {
			if rapid.Bool().Draw(t, "hit") {
				return Inj{DelayMs: rapid.SampledFrom([]int{0, 2, 10}).Draw(t, "delay"), Kind: stUpsert + 1}
			}
			return Inj{}
		})
		c.Inject = append(c.Inject, rapid.SliceOfN(later, k, 3*k+2).Draw(t, "retryInject")...)
		if rapid.Bool().Draw(t, "quiet") {
			c.PruneMs, c.RefreshMs = 0, 0
		}
	}
	if p.hookInj {
		hs := rapid.Custom(func(t *rapid.T) Step {
			return Step{Kind: rapid.SampledFrom([]int{-1, -1, stUpsert, stUpsert, stDelete, stDelReinsert, stStatusOnly}).Draw(t, "hkind"), ID: rapid.IntRange(1, p.maxID).Draw(t, "hid")}
		})
		c.HookInject = rapid.SliceOfN(hs, 0, 10).Draw(t, "hookInject")
	}
	if p.waits {
		wt := rapid.Custom(func(t *rapid.T) Wait {
			return Wait{AtMs: rapid.IntRange(0, 400).Draw(t, "at"), Rev: rapid.IntRange(0, 20).Draw(t, "rev")}
		})
		c.Waits = rapid.SliceOfN(wt, 0, 4).Draw(t, "waits")
	}
	return c
}

func recTest(t *testing.T, prop, test, rule string, p profile, check func(w *world) (string, error), nontrivial func(classes []string) bool) {
	var c Case
	if vk.Replaying() {
		if vk.Replay(prop, test, &c) {
			if res := run(t, c, check); res.err != nil {
				vk.Fail(t, prop, test, c, res.sig, "%v", res.err)
			}
		}
		return
	}
	rec := vk.NewRecorder(prop, test, rule)
	defer rec.Flush()
	rapid.Check(t, func(rt *rapid.T) {
		c := genCase(rt, p)
		res := run(t, c, check)
		nt := res.nontrivial
		if nontrivial != nil {
			nt = nontrivial(res.classes)
		}
		rec.Case(c, nt, res.classes...)
		if res.err != nil {
			vk.Fail(rt, prop, test, c, res.sig, "%v", res.err)
		}
	})
}

func has(cl []string, x string) bool {
	for _, c := range cl {
		if c == x {
			return true
		}
	}
	return false
}

// ------------------------------------------------------------------ C14 convergence

func (w *world) dump() string {
	s := ""
	for _, c := range w.calls {
		s += "\n    " + c.String()
	}
	s += "\n  user writes:"
	for _, u := range w.writes {
		s += fmt.Sprintf("\n    %v %s id=%d rev=%d gen=%d", u.At, stepNames[u.Kind], u.ID, u.Rev, u.Gen)
	}
	return s
}

func checkConverged(w *world, requireAll bool) (string, error) {
	rtxn := w.db.ReadTxn()
	w.mu.Lock()
	defer w.mu.Unlock()
	if w.inflight != 0 {
		return "not-quiescent", fmt.Errorf("%d operations still in flight after the settle bound", w.inflight)
	}
	lastUser := map[uint64]userWrite{}
	for _, u := range w.writes {
		if u.Kind != stStatusOnly {
			lastUser[u.ID] = u
		}
	}
	for id := range w.gens {
		o, _, found := w.table.Get(rtxn, idIndex.Query(id))
		lu := lastUser[id]
		if found {
			st := getStatus(o)
			if lu.Kind == stInsertDone || lu.Kind == stInsertUnset {
				// declared reconciled by the user: nothing is owed
				continue
			}
			if st.Kind == reconciler.StatusKindRefreshing && w.c.RefreshMs > 0 {
				// a periodic refresh is under way; the target must already hold the contents
				if tv, ok := w.target[id]; !ok || tv != o.Val {
					return "not-converged", fmt.Errorf("object %d is being refreshed but the target has %v,%v instead of val %d; calls:%s", id, tv, ok, o.Val, w.dump())
				}
				continue
			}
			if st.Kind != reconciler.StatusKindDone {
				return "not-converged", fmt.Errorf("object %d (val %d gen %d) has status %s after the settle bound %v (want Done); calls:%s", id, o.Val, o.Gen, st.Kind, w.c.settleBound(), w.dump())
			}
			if tv, ok := w.target[id]; !ok || tv != o.Val {
				return "not-converged", fmt.Errorf("target has %v,%v for object %d but the table has val %d; calls:%s", tv, ok, id, o.Val, w.dump())
			}
			if want := fmt.Sprintf("update:%d", o.Val); w.lastOpOK[id] != want {
				return "not-converged", fmt.Errorf("last successful operation for live object %d is %q, want %q; calls:%s", id, w.lastOpOK[id], want, w.dump())
			}
		} else {
			if _, ok := w.target[id]; ok {
				return "not-converged", fmt.Errorf("object %d was removed from the table but is still in the target; calls:%s", id, w.dump())
			}
			if requireAll && w.lastOpOK[id] != "delete" {
				// an object that was never reconciled (inserted Done, or never seen) owes no Delete
				everPending := false
				for _, u := range w.writes {
					if u.ID == id && u.Pending {
						everPending = true
					}
				}
				if everPending && w.lastOpOK[id] != "" {
					return "not-converged", fmt.Errorf("last successful operation for removed object %d is %q, want a Delete; calls:%s", id, w.lastOpOK[id], w.dump())
				}
			}
		}
	}
	return "", nil
}

func checkNoRetryPending(w *world) (string, error) {
	ctx, cancel := context.WithTimeout(context.Background(), time.Second)
	defer cancel()
	_, low, err := w.rec.WaitUntilReconciled(ctx, 0)
	if err != nil {
		return "wait-error", fmt.Errorf("WaitUntilReconciled(0) failed: %v", err)
	}
	if low != 0 {
		return "retry-pending", fmt.Errorf("after the settle bound the retry low-watermark is %d, want 0 (no failed object awaits retry); calls:%s", low, w.dump())
	}
	return "", nil
}

var profC14 = profile{stepKinds: []int{stUpsert, stUpsert, stUpsert, stUpsert, stDelete, stDelReinsert, stStatusOnly}, injKinds: []int{0, 0, 0, 1, 2, 3, 5}, maxFaults: 4, maxID: 6}

const ruleC14 = "a full hive+statedb+reconciler stack per case inside a synctest bubble (virtual clock): round size 1-5, round interval 1-10 ms, backoff min 1-50 ms x 1-64, single or batch operations; a timed script of inserts/updates/deletes/delete+re-insert and status-only writes of a second reconciler over 1-6 objects; per-object finite fault lists for Update and Delete consumed call by call; operations take 0-30 virtual ms and may perform a user write to the object while in flight. After the script the clock is advanced by a bound derived from the configuration and the fault plan; then every live object must be Done with its latest contents being the last successful Update, every removed object absent from the target with a successful Delete last, no operation in flight and the retry low-watermark 0. Non-trivial = a failed operation followed by a change of that object before its retry, a failed Delete followed by re-insert, or failures with more objects than the round size; distinct by case encoding."

func TestC14Converges(t *testing.T) {
	recTest(t, "C14", "TestC14Converges", ruleC14, profC14, func(w *world) (string, error) {
		if sig, err := checkConverged(w, true); err != nil {
			return sig, err
		}
		return checkNoRetryPending(w)
	}, nil)
}

// ------------------------------------------------------------------ C15 status write-back

func checkWriteBack(w *world) (string, error) {
	w.mu.Lock()
	hist := append([]version(nil), w.history...)
	calls := append([]call(nil), w.calls...)
	prunes := append([]pruneObs(nil), w.pruneCalls...)
	initDoneAt, inits := w.initDoneAt, w.c.Inits
	w.mu.Unlock()
	w.mu.Lock()
	writes := append([]userWrite(nil), w.writes...)
	w.mu.Unlock()
	for _, v := range hist {
		// Attribute the version by its revision: user writes are logged with the
		// exact revision they produced. (Attribution by committing goroutine would
		// race: the hook of one commit can observe the root of the next.)
		byUser := false
		var before *userWrite // latest user write to this object below v's revision
		for i := range writes {
			u := &writes[i]
			if u.ID != v.ID {
				continue
			}
			if v.Present && u.Rev == v.Rev && !u.Deleted {
				byUser = true
			}
			if v.Present && u.Rev < v.Rev && (before == nil || u.Rev > before.Rev) {
				before = u
			}
		}
		if !v.Present {
			// the reconciler never removes objects: some user delete must exist
			found := false
			for _, u := range writes {
				if u.ID == v.ID && (u.Deleted || u.Kind == stDelReinsert) {
					found = true
				}
			}
			if !found {
				return "reconciler-deleted", fmt.Errorf("at %v object %d disappeared although the user never deleted it; calls:%s", v.At, v.ID, w.dump())
			}
			continue
		}
		if byUser {
			continue
		}
		// a write made by the reconciler: it may only have changed the status of
		// the version the user wrote last before it
		if before == nil || before.Deleted {
			return "resurrected", fmt.Errorf("at %v a reconciler write (re-)created object %d (val %d gen %d rev %d): the last user write before that revision is %v; calls:%s", v.At, v.ID, v.Val, v.Gen, v.Rev, before, w.dump())
		}
		if v.Gen != before.Gen || v.Val != before.Gen*10+int(v.ID) {
			return "clobbered", fmt.Errorf("at %v the reconciler's write (rev %d) left object %d with (val %d gen %d) but the user's last write before it (rev %d) had gen %d: it must change nothing but the status; calls:%s", v.At, v.Rev, v.ID, v.Val, v.Gen, before.Rev, before.Gen, w.dump())
		}
		// ... including the status entries of other reconcilers
		if v.Prev != nil && v.Prev.Present && v.Other != v.Prev.Other {
			return "foreign-status-clobbered", fmt.Errorf("at %v the reconciler's write (rev %d) changed the status recorded for reconciler \"b\" on object %d from %v to %v: it must change nothing but its own status; calls:%s", v.At, v.Rev, v.ID, v.Prev.Other, v.Other, w.dump())
		}
		if v.Kind == reconciler.StatusKindRefreshing && w.c.RefreshMs > 0 {
			continue // the refresher marks Done objects for another Update: a status-only write
		}
		if v.Kind != reconciler.StatusKindDone && v.Kind != reconciler.StatusKindError {
			return "odd-status", fmt.Errorf("at %v the reconciler wrote status %s on object %d", v.At, v.Kind, v.ID)
		}
		// it may mark only a version that it passed to an operation with that outcome
		ok := false
		for _, c := range calls {
			if c.Op == "update" && c.ID == v.ID && c.Gen == v.Gen && c.End <= v.At && c.Fail == (v.Kind == reconciler.StatusKindError) {
				ok = true
			}
		}
		if !ok {
			return "misreported", fmt.Errorf("at %v object %d gen %d (val %d) was marked %s (rev %d) but no completed Update call with that outcome was given that version; calls:%s", v.At, v.ID, v.Gen, v.Val, v.Kind, v.Rev, w.dump())
		}
	}
	// objects whose status is not pending/refreshing get no Update
	for _, c := range calls {
		if c.Op == "update" && c.Kind != "Pending" && c.Kind != "Refreshing" {
			return "updated-non-pending", fmt.Errorf("Update was called for object %d with status %s; calls:%s", c.ID, c.Kind, w.dump())
		}
	}
	// versions written Done by the user are never handed to Update
	doneGens := map[[2]int]bool{}
	w.mu.Lock()
	for _, u := range w.writes {
		if u.Kind == stInsertDone || u.Kind == stInsertUnset {
			doneGens[[2]int{int(u.ID), u.Gen}] = true
		}
	}
	w.mu.Unlock()
	for _, c := range calls {
		if c.Op == "update" && doneGens[[2]int{int(c.ID), c.Gen}] && c.Kind != "Refreshing" {
			return "updated-non-pending", fmt.Errorf("Update was called for object %d gen %d which the user inserted with status Done; calls:%s", c.ID, c.Gen, w.dump())
		}
	}
	// Prune only once initialized, always with the complete table
	for _, p := range prunes {
		if !p.InitNow || (inits > 0 && (initDoneAt == 0 && !w.initialized || p.At < initDoneAt)) {
			return "prune-before-init", fmt.Errorf("Prune was called at %v although the table was not initialized (initializers completed at %v)", p.At, initDoneAt)
		}
		if !p.Complete {
			return "prune-incomplete", fmt.Errorf("Prune at %v did not receive the complete table: %s", p.At, p.Detail)
		}
	}
	// the newer versions are reconciled again: the end state converges
	if sig, err := checkConverged(w, false); err != nil {
		return sig, err
	}
	return "", nil
}

var profC15 = profile{stepKinds: []int{stUpsert, stUpsert, stUpsert, stDelete, stDelReinsert, stInsertDone, stInsertUnset, stStatusOnly, stPrune, stInitDone}, injKinds: []int{0, 1, 1, 2, 3, 5, 5}, maxFaults: 3, prune: true, inits: true, refresh: true, hookInj: true, maxID: 4}

const ruleC15 = "the C14 stack with write injection: while an Update/UpdateBatch/Delete call is in flight the mock performs a user write on the very object being reconciled (update of the data, delete, delete+re-insert, or a second reconciler's status-only change that keeps the pending id), i.e. between the reconciler's snapshot and its status commit; further user writes are performed at the wtxn.beforeLock hook of the reconciler's own write transactions (status commit, refresher), i.e. after it decided to write and before it holds the table lock; objects are also inserted with status Done, initializers are registered before start and completed by script steps, Prune() is triggered by script steps and by an interval, and in half of the cases the periodic refresher (50/300 ms) re-marks Done objects as Refreshing. Every committed table state is recorded at the commit.rootStored hook with the committing goroutine (user or reconciler). Checked: a reconciler write changes nothing but the status, never re-creates or removes an object, marks Done/Error only a version (id, generation) that a completed Update call with that outcome was given; Update is only called with Pending/Refreshing objects and never for user-Done versions; Prune only when initialized and with exactly Table.All of its transaction; finally everything converges. Non-trivial = a user write hit an operation in flight; distinct by case encoding."

func TestC15WriteBack(t *testing.T) {
	recTest(t, "C15", "TestC15WriteBack", ruleC15, profC15, checkWriteBack, func(cl []string) bool {
		return has(cl, "write_while_op_in_flight") || has(cl, "write_injected_before_reconciler_txn") || has(cl, "inject_upsert") || has(cl, "inject_delete") || has(cl, "inject_delete+reinsert") || has(cl, "inject_statusOnly")
	})
}

// ------------------------------------------------------------------ C16 pacing and WaitUntilReconciled

func checkPacing(w *world) (string, error) {
	w.mu.Lock()
	calls := append([]call(nil), w.calls...)
	writes := append([]userWrite(nil), w.writes...)
	waits := append([]waitObs(nil), w.waits...)
	w.mu.Unlock()
	min, maxB, s := w.c.backoffMin(), w.c.backoffMax(), w.c.roundInterval()
	perID := map[uint64][]call{}
	for _, c := range calls {
		if c.Op != "prune" {
			perID[c.ID] = append(perID[c.ID], c)
		}
	}
	changedBetween := func(id uint64, a, b time.Duration) bool {
		for _, u := range writes {
			if u.ID == id && u.At >= a && u.At <= b {
				return true
			}
		}
		return false
	}
	// Is the reconciler otherwise idle between a and b? (no other call overlaps or lies in between)
	idle := func(id uint64, a, b time.Duration) bool {
		for _, c := range calls {
			if c.Op == "prune" || c.ID == id {
				continue
			}
			if c.End > a && c.Start < b {
				return false
			}
		}
		for _, u := range writes {
			if u.At >= a && u.At <= b {
				return false
			}
		}
		return true
	}
	for id, cs := range perID {
		var prevGap time.Duration = -1
		for i := 0; i+1 < len(cs); i++ {
			a, b := cs[i], cs[i+1]
			if !a.Fail {
				prevGap = -1
				continue
			}
			if changedBetween(id, a.Start, b.Start) || a.Gen != b.Gen || a.Op != b.Op {
				// the object changed (or the later call works on another version
				// than the failed one): not a retry of the same thing
				prevGap = -1
				continue
			}
			gap := b.Start - a.End
			if gap < min {
				return "retry-too-soon", fmt.Errorf("object %d: the failed %s ending at %v was retried at %v, only %v later (minimum backoff %v) with no change in between; calls:%s", id, a.Op, a.End, b.Start, gap, min, w.dump())
			}
			if idle(id, a.End, b.Start) {
				if gap > maxB+2*s {
					return "retry-too-late", fmt.Errorf("object %d: idle reconciler retried the failed %s of %v only at %v, %v later (maximum backoff %v + round %v); calls:%s", id, a.Op, a.End, b.Start, gap, maxB, s, w.dump())
				}
				if prevGap >= 0 && b.Fail && gap+2*s < prevGap {
					return "backoff-shrinks", fmt.Errorf("object %d: consecutive failures waited %v and then only %v; calls:%s", id, prevGap, gap, w.dump())
				}
				prevGap = gap
			} else {
				prevGap = -1
			}
		}
		// after a change or a success the backoff starts over: the first retry gap
		// of a new failure streak on an idle reconciler is bounded by the initial wait.
		// A streak start is only used when it is unambiguous.
		strictlyBetween := func(a, b time.Duration) bool {
			for _, u := range writes {
				// a status-only write of another reconciler is not a change of
				// the object for this reconciler: the backoff does not start over
				if u.ID == id && u.At > a && u.At < b && u.Kind != stStatusOnly {
					return true
				}
			}
			return false
		}
		for i := 0; i+1 < len(cs); i++ {
			a, b := cs[i], cs[i+1]
			if !a.Fail {
				continue
			}
			fresh := i == 0 || !cs[i-1].Fail || strictlyBetween(cs[i-1].End, a.Start)
			if i > 0 && cs[i-1].Fail && !strictlyBetween(cs[i-1].End, a.Start) && changedBetween(id, cs[i-1].Start, a.Start) {
				fresh = false // a write at exactly a call instant: cannot tell on which side it fell
			}
			if i == 0 {
				// the very first attempt follows the user's first write: a fresh streak
				fresh = true
			}
			if fresh && !changedBetween(id, a.Start, b.Start) && a.Gen == b.Gen && a.Op == b.Op && idle(id, a.End, b.Start) {
				first := 2 * min // the wait after the first failure
				if first > maxB {
					first = maxB
				}
				if gap := b.Start - a.End; gap > first+2*s {
					return "backoff-not-reset", fmt.Errorf("object %d: the first failure of a new streak (after a change or a success) ending at %v was retried %v later; a fresh backoff waits %v (+ rounds %v); calls:%s", id, a.End, gap, first, 2*s, w.dump())
				}
			}
		}
	}
	// WaitUntilReconciled: nil => every change up to the argument has been attempted
	for _, wo := range waits {
		if wo.Err != nil {
			continue
		}
		if wo.Rev < wo.Arg {
			return "wait-early", fmt.Errorf("WaitUntilReconciled(%d) returned revision %d without error", wo.Arg, wo.Rev)
		}
		lastUser := map[uint64]userWrite{}
		lastAny := map[uint64]statedb.Revision{} // the object's revision: any write moves it, also a status-only one
		for _, u := range writes {
			if u.At <= wo.Ret && u.Kind != stStatusOnly {
				lastUser[u.ID] = u
			}
			if u.At <= wo.Ret {
				lastAny[u.ID] = u.Rev
			}
		}
		for id, u := range lastUser {
			if u.Rev > wo.Arg || lastAny[id] > wo.Arg || !(u.Pending || u.Deleted) {
				continue
			}
			attempted := false
			for _, c := range perID[id] {
				if c.Start <= wo.Ret && c.Rev >= u.Rev {
					attempted = true
				}
			}
			if u.Deleted {
				// a deletion of an object the reconciler never had to act on is trivially done
				seen := false
				for _, c := range perID[id] {
					if c.Start <= wo.Ret {
						seen = true
					}
				}
				if !seen {
					continue
				}
			}
			if !attempted {
				return "wait-early", fmt.Errorf("WaitUntilReconciled(%d) returned nil at %v but the change of object %d at revision %d (%s at %v) had not been attempted by then; calls:%s", wo.Arg, wo.Ret, id, u.Rev, stepNames[u.Kind], u.At, w.dump())
			}
		}
	}
	// the retry low-watermark at quiescent instants during the run: zero exactly
	// when no failed object awaits retry, else the revision of the oldest change
	// that is still failing
	w.mu.Lock()
	probes := append([]probeObs(nil), w.probes...)
	w.mu.Unlock()
	for _, p := range probes {
		latest := map[uint64]call{}
		for _, c := range calls[:p.NCalls] {
			if c.Op != "prune" {
				latest[c.ID] = c
			}
		}
		ambiguous := false
		var want statedb.Revision
		for id, c := range latest {
			if !c.Fail {
				continue
			}
			touched := false
			for _, u := range writes[:p.NWrites] {
				// By revision, not by time: a user write newer than the version the
				// call worked on (it may predate the call - the round's snapshot is
				// older than the call) means the result may have been dropped as stale
				// or the change may already have cleared the retry.
				if u.ID == id && (u.Rev > c.Rev || u.At >= c.Start) {
					touched = true
				}
			}
			if touched {
				ambiguous = true // the change may or may not have been picked up yet
				continue
			}
			// the change that is failing: the revision handed to the first failed
			// attempt of the current streak (retries of it carry later revisions,
			// those of the error status commits)
			first := c
			cs := perID[id]
			for i := len(cs) - 1; i > 0; i-- {
				if cs[i].Seq > c.Seq {
					continue
				}
				prev := cs[i-1]
				if !prev.Fail || prev.Gen != cs[i].Gen || prev.Op != cs[i].Op {
					break
				}
				chg := false
				for _, u := range writes[:p.NWrites] {
					if u.ID == id && u.At >= prev.Start && u.At <= cs[i].Start {
						chg = true
					}
				}
				if chg {
					ambiguous = true
					break
				}
				first = prev
			}
			if want == 0 || first.Rev < want {
				want = first.Rev
			}
		}
		if ambiguous {
			continue
		}
		if (want == 0) != (p.Low == 0) {
			return "low-watermark", fmt.Errorf("at %v (quiescent, nothing in flight) WaitUntilReconciled reports retry low-watermark %d, but per the call log the objects awaiting retry give %d; calls:%s", p.At, p.Low, want, w.dump())
		}
		if want != 0 && p.Low != want {
			return "low-watermark", fmt.Errorf("at %v (quiescent) the retry low-watermark is %d, the oldest failed change per the call log has revision %d; calls:%s", p.At, p.Low, want, w.dump())
		}
	}
	// at quiescence (end of run, everything settled) the low watermark is 0
	if sig, err := checkNoRetryPending(w); err != nil {
		return sig, err
	}
	return "", nil
}

var profC16 = profile{stepKinds: []int{stUpsert, stUpsert, stUpsert, stDelete, stStatusOnly}, injKinds: []int{0, 0, 0, 0, 1}, maxFaults: 8, waits: true, maxID: 3, failBias: true, afters: []int{0, 1, 5, 20, 50, 200, 200, 1000, 3000}}

const ruleC16 = "the C14 stack with longer per-object fail/succeed sequences (<= 8), several objects failing at once, object changes interleaved and a side goroutine calling WaitUntilReconciled(rev) for revisions of earlier user writes at generated instants; all attempts carry exact virtual timestamps. Checked over the call log: a retry never starts sooner than the minimum backoff after the failed attempt ended (no change in between); on stretches where nothing else is due the gap does not exceed maximum backoff + 2 rounds and does not shrink from one consecutive failure to the next; the first retry of a new failure streak (after a change or a success) uses the initial wait; WaitUntilReconciled returning nil implies every pending change up to its argument had been attempted by then; at the end the low-watermark is 0. During the run (at quiescent instants) the low-watermark is compared with the log in TestC16LowWatermark. Non-trivial = >= 2 consecutive failures of one object; distinct by case encoding."

func TestC16Pacing(t *testing.T) {
	recTest(t, "C16", "TestC16Pacing", ruleC16, profC16, checkPacing, func(cl []string) bool {
		return has(cl, "consecutive_failures")
	})
}

var _ = statedb.Revision(0)
