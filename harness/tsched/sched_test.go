//go:build verif

// Package tsched is the hook-driven schedule explorer (E-SCHED). It decides
// C05 (writers of a table are serialised, no committed write is lost) and
// C10 (no deadlock; open writers block only transactions sharing a table).
//
// Worker goroutines stop at every hook point inside WriteTxn/Commit/Abort/
// registerTable and around every table-lock acquisition; a scheduler lets
// exactly one of them proceed at a time, chosen by a generated schedule, and
// mirrors lock ownership so that a deadlock is recognised exactly.
package tsched

import (
	"slices"
	"bytes"
	"fmt"
	"runtime"
	"sort"
	"strconv"
	"strings"
	"sync"
	"testing"
	"time"

	"github.com/cilium/statedb"
	"github.com/cilium/statedb/index"
	"pgregory.net/rapid"

	"verifharness/vk"
)

const (
	aTxn = iota
	aRead
	aNewTable
	aChanges
	aCloseIter
	aTxnRejected // WriteTxn naming the handle of a table whose registration was rejected (duplicate name)
	aChangesUnheld // Changes(wtxn) on a table the transaction does not hold: refused, and no lock is taken for it
	numActs
)

var actNames = []string{"txn", "read", "newTable", "changes", "closeIter", "txnRejected", "changesUnheld"}

type Act struct {
	K      int   `json:"k"`
	Tables []int `json:"tables,omitempty"` // txn: table list (any order, duplicates); changes: [table]
	Commit bool  `json:"commit,omitempty"`
}

type Case struct {
	NTables  int     `json:"nTables"`
	Pad      []int   `json:"pad,omitempty"` // unused tables registered before workload table i (large databases: table positions 64 and more apart)
	Workers  [][]Act `json:"workers"`
	Schedule []int   `json:"schedule"`
}

type acct struct {
	ID  string
	Bal int // conserved across tables by transfers
	Cnt int // incremented by every committed transaction on this table
}

func (*acct) TableHeader() []string { return nil }
func (*acct) TableRow() []string    { return nil }

var acctIndex = statedb.Index[*acct, string]{
	Name:       "id",
	FromObject: func(a *acct) index.KeySet { return index.NewKeySet(index.String(a.ID)) },
	FromKey:    index.String,
	Unique:     true,
}

func gid() uint64 {
	var buf [64]byte
	n := runtime.Stack(buf[:], false)
	b := buf[len("goroutine "):n]
	i := bytes.IndexByte(b, ' ')
	id, _ := strconv.ParseUint(string(b[:i]), 10, 64)
	return id
}

type worker struct {
	id       int
	gid      uint64
	acts     []Act
	arrive   chan string
	resume   chan struct{}
	finished bool
	parkedAt string
	stuck    bool
	iters    []statedb.ChangeIterator[*acct]
	iterTbl  []statedb.RWTable[*acct] // the table of each open iterator
	// open transaction bookkeeping (for classification)
	inTxn         bool
	holding       map[uint64]bool
	pendingCommit []statedb.RWTable[*acct]
}

type result struct {
	err        error
	sig        string
	nontrivial bool
	classes    []string
}

type sched struct {
	c       Case
	db      *statedb.DB
	mu      sync.Mutex // protects byGid, tables
	byGid   map[uint64]*worker
	tables  []statedb.RWTable[*acct]
	seqOf   map[uint64]int // lock seq -> table index
	workers []*worker
	owner   map[uint64]*worker // lock mirror
	// model
	committedCnt map[int]int // table -> committed increments
	total        int
	viol         []string
	violSig      string
	classes      map[string]bool
	steps        int
	keep         []any
	rejected     statedb.RWTable[*acct] // handle returned together with ErrDuplicateTable
}

const grace = 8 * time.Second

func (s *sched) fail(sig, format string, args ...any) {
	s.mu.Lock()
	defer s.mu.Unlock()
	if s.violSig == "" {
		s.violSig = sig
	}
	s.viol = append(s.viol, fmt.Sprintf(format, args...))
}

func (s *sched) failed() bool {
	s.mu.Lock()
	defer s.mu.Unlock()
	return len(s.viol) > 0
}

func (s *sched) worker() *worker {
	g := gid()
	s.mu.Lock()
	defer s.mu.Unlock()
	return s.byGid[g]
}

func (s *sched) park(point string) {
	w := s.worker()
	if w == nil {
		return
	}
	w.arrive <- point
	<-w.resume
}

func (s *sched) table(i int) statedb.RWTable[*acct] {
	s.mu.Lock()
	defer s.mu.Unlock()
	n := len(s.tables)
	return s.tables[((i%n)+n)%n]
}

func (s *sched) numTables() int {
	s.mu.Lock()
	defer s.mu.Unlock()
	return len(s.tables)
}

func (s *sched) tableIndex(t statedb.TableMeta) int {
	s.mu.Lock()
	defer s.mu.Unlock()
	for i, x := range s.tables {
		if x.Name() == t.Name() {
			return i
		}
	}
	return -1
}

// runWorker executes the worker's actions; every statedb call inside stops at
// the hook points.
func (s *sched) runWorker(w *worker) {
	defer func() {
		if r := recover(); r != nil {
			buf := make([]byte, 2048)
			buf = buf[:runtime.Stack(buf, false)]
			s.fail("panic", "worker %d: panic in the code under test: %v\n%s", w.id, r, buf)
		}
		w.arrive <- "finished"
	}()
	<-w.resume
	for ai, a := range w.acts {
		if s.failed() {
			return
		}
		switch a.K {
		case aTxn:
			s.doTxn(w, ai, a)
		case aRead:
			s.doRead(w, fmt.Sprintf("worker %d action %d", w.id, ai))
		case aNewTable:
			name := fmt.Sprintf("n%dx%d", w.id, ai)
			s.park("newtable.before")
			t, err := statedb.NewTable[*acct](s.db, name, acctIndex)
			if err != nil {
				s.fail("newtable", "NewTable(%s) failed: %v", name, err)
				return
			}
			s.mu.Lock()
			s.tables = append(s.tables, t)
			s.seqOf[statedb.VerifTableLockSeq(t)] = len(s.tables) - 1
			s.mu.Unlock()
			s.park("register.stored")
		case aChanges:
			t := s.table(a.Tables[0])
			wtxn := s.db.WriteTxn(t)
			it, err := t.Changes(wtxn)
			wtxn.Commit()
			if err != nil {
				s.fail("changes", "Changes failed: %v", err)
				return
			}
			w.iters = append(w.iters, it)
			w.iterTbl = append(w.iterTbl, t)
		case aCloseIter:
			if len(w.iters) > 0 {
				w.iters[0].Close()
				w.iters = w.iters[1:]
				w.iterTbl = w.iterTbl[1:]
			}
		case aTxnRejected:
			s.doTxnRejected(w, ai, a)
		case aChangesUnheld:
			if len(a.Tables) >= 2 {
				held, other := s.table(a.Tables[0]), s.table(a.Tables[1])
				if held.Name() != other.Name() {
					wtxn := s.db.WriteTxn(held)
					it, err := other.Changes(wtxn)
					wtxn.Abort()
					if err == nil {
						keepAlive = append(keepAlive, it)
						s.fail("changes-unheld", "worker %d: Changes(wtxn) on table %s succeeded although the transaction holds only %s", w.id, other.Name(), held.Name())
					}
					s.mu.Lock()
					s.classes["changes_on_unheld_table"] = true
					s.mu.Unlock()
				}
			}
		}
	}
}

func (s *sched) doTxn(w *worker, ai int, a Act) {
	var metas []statedb.TableMeta
	var tbls []statedb.RWTable[*acct]
	seen := map[string]bool{}
	for _, ti := range a.Tables {
		t := s.table(ti)
		metas = append(metas, t)
		if !seen[t.Name()] {
			seen[t.Name()] = true
			tbls = append(tbls, t)
		}
	}
	wtxn := s.db.WriteTxn(metas...)
	// read every held table's account, check freshness, increment, transfer
	accts := make([]*acct, len(tbls))
	for i, t := range tbls {
		cur, _, ok := t.Get(wtxn, acctIndex.Query("acct"))
		if !ok {
			cur = &acct{ID: "acct"}
		}
		ti := s.tableIndex(t)
		s.mu.Lock()
		want := s.committedCnt[ti]
		s.mu.Unlock()
		if cur.Cnt != want {
			s.fail("stale-read", "worker %d action %d: transaction on %v reads counter %d of table %s but %d increments were committed before it got the table: a committed write is not visible to the next writer", w.id, ai, names(metas), cur.Cnt, t.Name(), want)
		}
		n := *cur
		n.Cnt++
		accts[i] = &n
	}
	if len(accts) >= 2 {
		accts[0].Bal--
		accts[1].Bal++
	}
	for i, t := range tbls {
		if _, _, err := t.Insert(wtxn, accts[i]); err != nil {
			s.fail("insert", "worker %d action %d: Insert into held table failed: %v", w.id, ai, err)
		}
	}
	if a.Commit {
		w.pendingCommit = tbls
		rtxn := wtxn.Commit()
		w.pendingCommit = nil
		// C02: the snapshot returned by Commit is the state at the point of commit:
		// it contains exactly this transaction's writes, whatever other writers
		// have committed to the same tables by the time Commit returns.
		for i, t := range tbls {
			got, _, ok := t.Get(rtxn, acctIndex.Query("acct"))
			if !ok || got != accts[i] {
				s.fail("commit-snapshot", "worker %d action %d: the ReadTxn returned by Commit shows %+v for table %s, the transaction wrote %+v: the returned snapshot is not the state at the point of commit", w.id, ai, got, t.Name(), accts[i])
			}
		}
	} else {
		wtxn.Abort()
	}
}

// doTxnRejected requests a write transaction that names, besides registered
// tables, the handle NewTable returned together with ErrDuplicateTable. The
// request must be refused (WriteTxn panics with ErrTableNotRegistered) and
// must leave nothing behind: no lock held, no transaction granted.
func (s *sched) doTxnRejected(w *worker, ai int, a Act) {
	var metas []statedb.TableMeta
	for _, ti := range a.Tables {
		metas = append(metas, s.table(ti))
	}
	// the rejected handle goes last or first
	if a.Commit {
		metas = append(metas, s.rejected)
	} else {
		metas = append([]statedb.TableMeta{s.rejected}, metas...)
	}
	var wtxn statedb.WriteTxn
	panicked := func() (p bool) {
		defer func() {
			if r := recover(); r != nil {
				p = true
			}
		}()
		wtxn = s.db.WriteTxn(metas...)
		return false
	}()
	s.mu.Lock()
	s.classes["rejected_handle_request"] = true
	s.mu.Unlock()
	if !panicked {
		wtxn.Abort()
		s.fail("unregistered-granted", "worker %d action %d: WriteTxn(%v) was granted although one of the tables was never registered (its registration failed with ErrDuplicateTable): its writes would go to another table's slot without that table's lock", w.id, ai, names(metas))
	}
}

func names(ms []statedb.TableMeta) []string {
	var out []string
	for _, m := range ms {
		out = append(out, m.Name())
	}
	return out
}

// doRead: a reader takes a snapshot and checks the conserved sum over every
// registered table; it must never wait and never see a partial commit.
func (s *sched) doRead(w *worker, who string) {
	rtxn := s.db.ReadTxn()
	s.mu.Lock()
	tables := append([]statedb.RWTable[*acct](nil), s.tables...)
	s.mu.Unlock()
	sum := 0
	for _, t := range tables {
		a, _, ok := t.Get(rtxn, acctIndex.Query("acct"))
		if ok {
			sum += a.Bal
		}
	}
	if sum != s.total {
		s.fail("sum-not-conserved", "%s: a snapshot shows a cross-table balance sum of %d, every committed state has %d: a commit was seen partially or a committed write was lost", who, sum, s.total)
	}
}

func run(c Case, own string) (res result) {
	s := &sched{c: c, byGid: map[uint64]*worker{}, seqOf: map[uint64]int{}, owner: map[uint64]*worker{}, committedCnt: map[int]int{}, classes: map[string]bool{}}
	s.db = statedb.New()
	for i := 0; i < max(1, c.NTables); i++ {
		if i < len(c.Pad) {
			for j := 0; j < c.Pad[i]; j++ {
				if _, err := statedb.NewTable[*acct](s.db, fmt.Sprintf("pad%d_%d", i, j), acctIndex); err != nil {
					panic(err)
				}
			}
			if c.Pad[i] > 0 {
				s.classes["padded_tables"] = true
			}
		}
		t, err := statedb.NewTable[*acct](s.db, fmt.Sprintf("t%d", i), acctIndex)
		if err != nil {
			panic(err)
		}
		s.tables = append(s.tables, t)
		s.seqOf[statedb.VerifTableLockSeq(t)] = i
		wtxn := s.db.WriteTxn(t)
		t.Insert(wtxn, &acct{ID: "acct", Bal: 100})
		wtxn.Commit()
		s.total += 100
	}
	// a handle whose registration is rejected: NewTable returns it together with the error
	if rej, err := statedb.NewTable[*acct](s.db, "t0", acctIndex); err == nil {
		panic("duplicate table name accepted")
	} else {
		s.rejected = rej
	}
	for i, acts := range c.Workers {
		s.workers = append(s.workers, &worker{id: i, acts: acts, arrive: make(chan string), resume: make(chan struct{}), holding: map[uint64]bool{}})
	}
	statedb.VerifSetHook(func(point string, db *statedb.DB) {
		if db == s.db {
			s.park(point)
		}
	})
	statedb.VerifSetLockHook(func(event string, seq uint64) {
		s.mu.Lock()
		_, ours := s.seqOf[seq]
		s.mu.Unlock()
		if ours {
			s.park(event + ":" + strconv.FormatUint(seq, 10))
		}
	})
	defer statedb.VerifSetHook(nil)
	defer statedb.VerifSetLockHook(nil)

	var ready sync.WaitGroup
	for _, w := range s.workers {
		ready.Add(1)
		go func(w *worker) {
			s.mu.Lock()
			w.gid = gid()
			s.byGid[w.gid] = w
			s.mu.Unlock()
			ready.Done()
			s.runWorker(w)
		}(w)
		w.parkedAt = "start"
	}
	ready.Wait()

	si := 0
	for {
		if s.failed() {
			break
		}
		var runnable []*worker
		unfinished, blocked := 0, 0
		for _, w := range s.workers {
			if w.finished {
				continue
			}
			unfinished++
			if w.stuck {
				continue
			}
			if strings.HasPrefix(w.parkedAt, "lock.before:") {
				seq, _ := strconv.ParseUint(strings.TrimPrefix(w.parkedAt, "lock.before:"), 10, 64)
				if o := s.owner[seq]; o != nil && o != w {
					blocked++
					continue
				}
				if o := s.owner[seq]; o == w {
					// re-acquiring a lock it already holds: self-deadlock
					s.fail("self-deadlock", "worker %d is about to lock a table lock (seq %d, table %d) that it already holds: WriteTxn would deadlock on itself", w.id, seq, s.seqOf[seq])
					break
				}
			}
			runnable = append(runnable, w)
		}
		if s.failed() {
			break
		}
		if unfinished == 0 {
			break
		}
		if len(runnable) == 0 {
			if blocked > 0 && blocked == unfinished {
				s.fail("deadlock", "deadlock: %d unfinished workers, every one of them waits for a table lock held by another waiting worker: %s", unfinished, s.describe())
				break
			}
			// only stuck workers remain: wait for them a little longer
			progressed := false
			deadline := time.After(grace)
		waitStuck:
			for {
				for _, w := range s.workers {
					if w.stuck {
						select {
						case p := <-w.arrive:
							w.stuck = false
							s.arrived(w, p)
							progressed = true
							break waitStuck
						default:
						}
					}
				}
				select {
				case <-deadline:
					break waitStuck
				case <-time.After(time.Millisecond):
				}
			}
			if !progressed {
				s.fail("blocked", "no worker can make progress: %s", s.describe())
				break
			}
			continue
		}
		k := 0
		if si < len(c.Schedule) {
			k = ((c.Schedule[si] % len(runnable)) + len(runnable)) % len(runnable)
			si++
		}
		w := runnable[k]
		if len(runnable) > 1 {
			s.classes["choice_points"] = true
		}
		s.leaving(w)
		w.resume <- struct{}{}
		s.steps++
		select {
		case p := <-w.arrive:
			s.arrived(w, p)
		case <-time.After(grace):
			// The released worker is not blocked according to the lock mirror, all
			// other workers are parked at hook points, yet it does not reach its
			// next hook point. (It may have arrived in the very same instant.)
			select {
			case p := <-w.arrive:
				s.arrived(w, p)
				continue
			default:
			}
			st := goroutineState(w.gid)
			if strings.Contains(st, "Mutex.Lock") || strings.Contains(st, "RWMutex") || strings.Contains(st, "semacquire") || strings.Contains(st, "sync.Cond") {
				s.fail("unmodelled-block", "worker %d (last at %s) was released but is blocked (%s) although it waits for no table lock held by another transaction: an open write transaction (or registration) delays a transaction that shares no table with it; %s", w.id, w.parkedAt, st, s.describe())
			} else {
				w.stuck = true // slow, not blocked: keep going with the others
			}
		}
	}
	// collect classes
	if s.classes["two_inside"] {
		res.nontrivial = true
	}
	if !s.failed() {
		s.finalChecks()
	}
	for k := range s.classes {
		res.classes = append(res.classes, k)
	}
	sort.Strings(res.classes)
	s.mu.Lock()
	if len(s.viol) > 0 {
		// deadlock-type findings belong to C10, everything else to C05; the other
		// property's run records a foreign divergence and goes on
		owner := "C05"
		switch s.violSig {
		case "deadlock", "self-deadlock", "unmodelled-block", "blocked":
			owner = "C10"
		case "commit-snapshot", "sum-not-conserved":
			owner = "C02"
		}
		if owner == own {
			res.sig = s.violSig
			res.err = fmt.Errorf("%s", s.viol[0])
		} else {
			res.classes = append(res.classes, "foreign_divergence_"+owner)
			res.nontrivial = false
		}
	}
	s.mu.Unlock()
	// keep iterators alive so that their cleanups never run
	for _, w := range s.workers {
		for _, it := range w.iters {
			keepAlive = append(keepAlive, it)
		}
	}
	return res
}

var keepAlive []any

func goroutineState(g uint64) string {
	buf := make([]byte, 1<<20)
	buf = buf[:runtime.Stack(buf, true)]
	marker := fmt.Sprintf("goroutine %d [", g)
	i := bytes.Index(buf, []byte(marker))
	if i < 0 {
		return "gone"
	}
	rest := buf[i:]
	if j := bytes.Index(rest, []byte("\n\n")); j > 0 {
		rest = rest[:j]
	}
	lines := strings.SplitN(string(rest), "\n", 4)
	if len(lines) >= 2 {
		return lines[0] + " " + strings.TrimSpace(lines[1])
	}
	return string(rest)
}

func (s *sched) describe() string {
	var b strings.Builder
	for _, w := range s.workers {
		fmt.Fprintf(&b, "[worker %d: finished=%v parkedAt=%s holds=%v] ", w.id, w.finished, w.parkedAt, s.heldBy(w))
	}
	return b.String()
}

func (s *sched) heldBy(w *worker) []int {
	var out []int
	for seq, o := range s.owner {
		if o == w {
			out = append(out, s.seqOf[seq])
		}
	}
	sort.Ints(out)
	return out
}

// leaving: bookkeeping when a worker is released from its parking point.
func (s *sched) leaving(w *worker) {}

// arrived: a worker reached a hook point; update the lock mirror and the model.
func (s *sched) arrived(w *worker, p string) {
	w.parkedAt = p
	switch {
	case p == "finished":
		w.finished = true
	case strings.HasPrefix(p, "lock.after:"):
		seq, _ := strconv.ParseUint(strings.TrimPrefix(p, "lock.after:"), 10, 64)
		if o := s.owner[seq]; o != nil && o != w {
			s.fail("two-holders", "workers %d and %d both hold the lock of table %d", o.id, w.id, s.seqOf[seq])
		}
		s.owner[seq] = w
	case strings.HasPrefix(p, "unlock.after:"):
		seq, _ := strconv.ParseUint(strings.TrimPrefix(p, "unlock.after:"), 10, 64)
		if s.owner[seq] == w {
			delete(s.owner, seq)
		}
	case p == "wtxn.locked":
		w.inTxn = true
		// how many workers are inside a transaction now?
		n := 0
		for _, x := range s.workers {
			if x.inTxn && !x.finished {
				n++
			}
		}
		if n >= 2 {
			s.classes["two_inside"] = true
		}
	case p == "commit.rootStored":
		// the commit is published: its increments count from now on
		for _, t := range w.pendingCommit {
			ti := s.tableIndex(t)
			s.mu.Lock()
			s.committedCnt[ti]++
			s.mu.Unlock()
		}
		for _, x := range s.workers {
			if x != w && x.inTxn && !x.finished {
				s.classes["commit_while_other_txn_open"] = true
			}
		}
	case p == "commit.unlocked", p == "abort.unlocked":
		w.inTxn = false
	case p == "register.stored":
		for _, x := range s.workers {
			if x != w && x.inTxn && !x.finished {
				s.classes["newtable_while_txn_open"] = true
			}
		}
	}
}

// finalChecks: no committed write was lost, every registered table is usable.
func (s *sched) finalChecks() {
	defer func() {
		if r := recover(); r != nil {
			s.fail("lost-table", "final probe panicked: %v (a table registered while a transaction was open was lost from the database root)", r)
		}
	}()
	s.doRead(nil, "final snapshot")
	rtxn := s.db.ReadTxn()
	s.mu.Lock()
	tables := append([]statedb.RWTable[*acct](nil), s.tables...)
	s.mu.Unlock()
	pads := 0
	for i, n := range s.c.Pad {
		if i < max(1, s.c.NTables) {
			pads += n
		}
	}
	if got := len(s.db.GetTables(rtxn)); got != len(tables)+pads {
		s.fail("lost-table", "the database root holds %d tables, %d were registered", got, len(tables)+pads)
		return
	}
	for i, t := range tables {
		a, _, ok := t.Get(rtxn, acctIndex.Query("acct"))
		cnt := 0
		if ok {
			cnt = a.Cnt
		}
		s.mu.Lock()
		want := s.committedCnt[i]
		s.mu.Unlock()
		if cnt != want {
			s.fail("lost-write", "table %s: counter is %d after all workers finished but %d transactions committed an increment: a committed write was lost", t.Name(), cnt, want)
		}
		// probe: the table can be written and read back
		wtxn := s.db.WriteTxn(t)
		t.Insert(wtxn, &acct{ID: "gone"})
		wtxn.Commit()
		wtxn = s.db.WriteTxn(t)
		t.Insert(wtxn, &acct{ID: "probe", Cnt: 7})
		r2 := wtxn.Commit()
		if p, _, ok := t.Get(r2, acctIndex.Query("probe")); !ok || p.Cnt != 7 {
			s.fail("lost-table", "table %s: a probe write after the run cannot be read back", t.Name())
		}
	}
	// every change iterator that is still open is still registered (its
	// registration was a committed write): a deletion made now is delivered to it
	for _, w := range s.workers {
		for i, it := range w.iters {
			t := w.iterTbl[i]
			wtxn := s.db.WriteTxn(t)
			_, had, _ := t.Delete(wtxn, &acct{ID: "gone"})
			r := wtxn.Commit()
			if !had {
				continue // already probed through another iterator of this table
			}
			delivered := false
			for round := 0; round < 3 && !delivered; round++ {
				changes, _ := it.Next(r)
				for c := range changes {
					if c.Deleted && c.Object.ID == "gone" {
						delivered = true
					}
				}
			}
			if !delivered {
				s.fail("lost-registration", "an open change iterator on table %s (created by worker %d in a committed transaction) is not handed a deletion committed after all workers finished: its registration was lost", t.Name(), w.id)
			}
			s.classes["open_iterator_probed"] = true
		}
	}
}

// ------------------------------------------------------------------ generators and tests

type profile struct {
	acts []int
}

func genCase(t *rapid.T, p profile) Case {
	c := Case{NTables: rapid.IntRange(2, 4).Draw(t, "nTables")}
	if rapid.IntRange(0, 5).Draw(t, "largeDB") == 0 {
		// a large database: the workload tables sit far apart in the root
		c.Pad = rapid.SliceOfN(rapid.SampledFrom([]int{0, 1, 62, 63, 63, 64, 127}), c.NTables, c.NTables).Draw(t, "pad")
	}
	nw := rapid.IntRange(2, 4).Draw(t, "workers")
	acts, maxTable := p.acts, 5
	if slices.Contains(p.acts, aChanges) && rapid.IntRange(0, 5).Draw(t, "iteratorHeavy") == 0 {
		// iterator registrations and closes racing each other on few tables
		acts, maxTable = []int{aChanges, aChanges, aChanges, aCloseIter, aCloseIter, aTxn}, 1
	}
	act := rapid.Custom(func(t *rapid.T) Act {
		a := Act{K: rapid.SampledFrom(acts).Draw(t, "k")}
		switch a.K {
		case aTxn:
			a.Tables = rapid.SliceOfN(rapid.IntRange(0, 5), 1, 4).Draw(t, "tables")
			a.Commit = rapid.IntRange(0, 3).Draw(t, "commit") != 0
		case aTxnRejected:
			a.Tables = rapid.SliceOfN(rapid.IntRange(0, 5), 0, 3).Draw(t, "tables")
			a.Commit = rapid.Bool().Draw(t, "rejectedLast")
		case aChangesUnheld:
			a.Tables = rapid.SliceOfN(rapid.IntRange(0, 5), 2, 2).Draw(t, "tables")
		case aChanges:
			a.Tables = []int{rapid.IntRange(0, maxTable).Draw(t, "table")}
		}
		return a
	})
	for i := 0; i < nw; i++ {
		c.Workers = append(c.Workers, rapid.SliceOfN(act, 1, 4).Draw(t, "acts"))
	}
	c.Schedule = rapid.SliceOfN(rapid.IntRange(0, 3), 0, 120).Draw(t, "schedule")
	return c
}

func schedTest(t *testing.T, prop, test, rule string, p profile, nontrivial func(cl []string) bool) {
	var c Case
	if vk.Replaying() {
		if vk.Replay(prop, test, &c) {
			if res := run(c, prop); res.err != nil {
				vk.Fail(t, prop, test, c, res.sig, "%v", res.err)
			}
		}
		return
	}
	rec := vk.NewRecorder(prop, test, rule)
	defer rec.Flush()
	rapid.Check(t, func(rt *rapid.T) {
		c := genCase(rt, p)
		res := run(c, prop)
		rec.Case(c, nontrivial(res.classes), res.classes...)
		if res.err != nil {
			vk.Fail(rt, prop, test, c, res.sig, "%v", res.err)
		}
	})
}

func has(cl []string, x string) bool {
	for _, c := range cl {
		if c == x {
			return true
		}
	}
	return false
}

const ruleC05 = "2-4 worker goroutines, each running 1-4 actions (write transactions over arbitrary overlapping/disjoint table lists in any order with duplicates that read a per-table counter, write counter+1 and transfer one unit between two of their tables, committed or aborted; snapshot reads checking the conserved cross-table sum; NewTable; creating and closing change iterators; WriteTxn requests naming a table handle whose registration was rejected as duplicate - these must be refused and leave nothing behind) over 2-4 initial tables (in one case out of six placed up to 128 positions apart in a database with many other tables); every hook point in WriteTxn/Commit/Abort/registerTable and every table-lock acquisition/release is a scheduling point and a generated schedule decides which worker proceeds (exactly one at a time). Oracle: the counter a transaction reads equals the increments committed (root stored) before it obtained the table; no table lock has two holders; every snapshot shows the conserved sum; at the end each counter equals its committed increments, every table ever registered is in the root and can be written and read back, and every change iterator still open is handed a deletion committed at the end (its registration was not lost). Non-trivial = two workers were inside a write transaction at the same time; distinct by case encoding."

func TestC05Serialised(t *testing.T) {
	schedTest(t, "C05", "TestC05Serialised", ruleC05, profile{acts: []int{aTxn, aTxn, aTxn, aTxn, aTxn, aTxn, aRead, aNewTable, aNewTable, aTxnRejected, aChanges, aChanges, aCloseIter}}, func(cl []string) bool {
		return has(cl, "two_inside") || has(cl, "newtable_while_txn_open")
	})
}

const ruleC10 = "the C05 workers (incl. refused WriteTxn requests naming an unregistered table handle, which must not leave locks held) plus creating and closing change iterators (Close opens its own write transaction) and table registration; same hook-driven scheduler with a mirror of table-lock ownership. Oracle: the run ends with every worker finished; a state in which every unfinished worker waits for a table lock held by another waiting worker is a deadlock (decided without timers); a worker about to lock a table lock it already holds is a self-deadlock; a released worker that the mirror says is not waiting for a held table lock must reach its next hook point while all others stay parked - if it is found blocked in a synchronisation primitive after the grace period, an open transaction delays a transaction that shares no table with it (or a reader). Non-trivial = two workers were inside a write transaction at once and the schedule had real choice points; distinct by case encoding."

const ruleC02S = "the C05 explorer workload, judged for C02: the ReadTxn returned by every Commit must show exactly the objects that transaction wrote (also when another worker commits to the same tables between this Commit's lock release and its return), and every snapshot a reader takes at any scheduling point shows the conserved cross-table balance sum (a multi-table commit is seen completely or not at all). Non-trivial = a commit was published while another worker was inside a transaction; distinct by case encoding."

func TestC02Sched(t *testing.T) {
	schedTest(t, "C02", "TestC02Sched", ruleC02S, profile{acts: []int{aTxn, aTxn, aTxn, aTxn, aRead, aRead}}, func(cl []string) bool {
		return has(cl, "commit_while_other_txn_open") || has(cl, "two_inside")
	})
}

func TestC10NoDeadlock(t *testing.T) {
	schedTest(t, "C10", "TestC10NoDeadlock", ruleC10, profile{acts: []int{aTxn, aTxn, aTxn, aTxn, aTxn, aTxn, aRead, aNewTable, aChanges, aChanges, aCloseIter, aTxnRejected, aChangesUnheld}}, func(cl []string) bool {
		return has(cl, "two_inside") && has(cl, "choice_points")
	})
}
