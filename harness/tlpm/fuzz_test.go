//go:build verif

package tlpm

import (
	"testing"

	"pgregory.net/rapid"

	"verifharness/vk"
)

func FuzzC13Trie(f *testing.F) {
	f.Fuzz(rapid.MakeFuzz(func(rt *rapid.T) {
		c := genCase(rt)
		if res := run(c); res.err != nil {
			vk.Fail(rt, "C13", "TestC13Trie", c, res.sig, "%v", res.err)
		}
	}))
}
