//go:build verif

// Package tlpm decides C13: the LPM trie has exact longest-prefix semantics
// and is persistent.
package tlpm

import (
	"bytes"
	"fmt"
	"sort"
	"testing"

	"github.com/cilium/statedb/index"
	"github.com/cilium/statedb/lpm"
	"pgregory.net/rapid"

	"verifharness/vk"
)

const (
	opBegin = iota
	opInsert
	opDelete
	opRead
	opIter
	opCommit
	opAbandon
	opInsertChain // nested prefixes q/len, q/len+1, ... (deep paths: one node per stored prefix)
	opDeleteChain
	opInsertComb // the all-zeros key and N full-length keys with one bit set (a left spine with a right sibling at every level)
)

var opNames = []string{"begin", "insert", "delete", "read", "iter", "commit", "abandon", "insertChain", "deleteChain", "insertComb"}

type Op struct {
	K    int    `json:"k"`
	Bits uint32 `json:"bits,omitempty"` // 32-bit pattern, repeated over the universe width
	Flip int    `json:"flip,omitempty"` // 1+position of one extra flipped bit (0 = none)
	Len  int    `json:"len,omitempty"`
	Val  int    `json:"val,omitempty"`
	A    int    `json:"a,omitempty"` // base version / read kind / iterator kind
	B    int    `json:"b,omitempty"` // consume count / reuse flag
	N    int    `json:"n,omitempty"` // chain operations: number of nested prefixes
}

type Case struct {
	Width int  `json:"width"` // bytes: 1, 2, 4 or 16
	Ops   []Op `json:"ops"`
}

func (o Op) String() string {
	return fmt.Sprintf("%s(bits=%08x len=%d val=%d a=%d b=%d)", opNames[o.K], o.Bits, o.Len, o.Val, o.A, o.B)
}

// pfx: a prefix of up to 128 bits, left aligned; bits beyond len are zero.
type pfx struct {
	bits [16]byte
	len  int
}

func mask(bits [16]byte, l int) [16]byte {
	var out [16]byte
	for i := 0; i < 16; i++ {
		switch {
		case l >= (i+1)*8:
			out[i] = bits[i]
		case l <= i*8:
			out[i] = 0
		default:
			out[i] = bits[i] & (0xff << (8 - l%8))
		}
	}
	return out
}

func covers(p pfx, q pfx) bool { // p covers q: p is a (non-strict) ancestor of q
	return p.len <= q.len && mask(q.bits, p.len) == p.bits
}

func less(a, b pfx) bool {
	if c := bytes.Compare(a.bits[:], b.bits[:]); c != 0 {
		return c < 0
	}
	return a.len < b.len
}

type entry struct {
	p pfx
	v int
}

type model map[pfx]int

func (m model) sorted() []entry {
	out := make([]entry, 0, len(m))
	for p, v := range m {
		out = append(out, entry{p, v})
	}
	sort.Slice(out, func(i, j int) bool { return less(out[i].p, out[j].p) })
	return out
}

func (m model) clone() model {
	c := make(model, len(m))
	for k, v := range m {
		c[k] = v
	}
	return c
}

type universe struct{ width int }

func (u universe) key(p pfx) index.Key { return lpm.EncodeLPMKey(p.bits[:u.width], lpm.PrefixLen(p.len)) }

func (u universe) decode(k []byte) pfx {
	d, l := lpm.DecodeLPMKey(k)
	var p pfx
	copy(p.bits[:], d)
	p.len = int(l)
	return p
}

// expand turns the 32-bit pattern of an operation into the universe's width:
// the pattern is repeated, so long keys share long prefixes and diverge late.
func (u universe) expand(bits uint32, flip int) [16]byte {
	var b [16]byte
	for i := 0; i < 16; i += 4 {
		b[i], b[i+1], b[i+2], b[i+3] = byte(bits>>24), byte(bits>>16), byte(bits>>8), byte(bits)
	}
	if flip > 0 {
		pos := (flip - 1) % (u.width * 8)
		b[pos/8] ^= 0x80 >> uint(pos%8)
	}
	for i := u.width; i < 16; i++ {
		b[i] = 0
	}
	return b
}

func (u universe) norm(bits uint32, flip, l int) pfx {
	max := u.width * 8
	if l > max {
		l = max
	}
	if l < 0 {
		l = 0
	}
	return pfx{mask(u.expand(bits, flip), l), l}
}

func collect(u universe, it *lpm.Iterator[int]) []entry {
	var out []entry
	it.All(func(k []byte, v int) bool {
		out = append(out, entry{u.decode(k), v})
		return true
	})
	return out
}

func eq(a, b []entry) bool {
	if len(a) != len(b) {
		return false
	}
	for i := range a {
		if a[i] != b[i] {
			return false
		}
	}
	return true
}

func show(s []entry) string {
	out := "["
	for i, e := range s {
		if i > 10 {
			out += fmt.Sprintf(" ...(%d)", len(s))
			break
		}
		out += fmt.Sprintf(" %x/%d=%d", e.p.bits[:(e.p.len+7)/8], e.p.len, e.v)
	}
	return out + " ]"
}

type version struct {
	trie   lpm.Trie[int]
	want   []entry
	origin string
}

type retIter struct {
	it     *lpm.Iterator[int]
	want   []entry
	origin string
}

type result struct {
	err        error
	sig        string
	nontrivial bool
	classes    []string
}

type reader interface {
	Len() int
	Lookup(key index.Key) (int, bool)
	LookupExact(key index.Key) (int, bool)
	All() *lpm.Iterator[int]
	Prefix(key index.Key) *lpm.Iterator[int]
	LowerBound(key index.Key) *lpm.Iterator[int]
}

func wantLookup(all []entry, q pfx) (int, bool) {
	best := -1
	for i, e := range all {
		if covers(e.p, q) && (best < 0 || e.p.len > all[best].p.len) {
			best = i
		}
	}
	if best < 0 {
		return 0, false
	}
	return all[best].v, true
}

func wantPrefix(all []entry, q pfx) []entry {
	var out []entry
	for _, e := range all {
		if covers(q, e.p) {
			out = append(out, e)
		}
	}
	return out
}

func wantLower(all []entry, q pfx) []entry {
	var out []entry
	for _, e := range all {
		if !less(e.p, q) {
			out = append(out, e)
		}
	}
	return out
}

func commonLen(a, b pfx) int {
	n := 0
	for i := 0; i < 16; i++ {
		x := a.bits[i] ^ b.bits[i]
		if x == 0 {
			n += 8
			continue
		}
		for x&0x80 == 0 {
			x <<= 1
			n++
		}
		break
	}
	return min(n, a.len, b.len)
}

func run(c Case) (res result) {
	u := universe{c.Width}
	defer func() {
		if r := recover(); r != nil {
			res.sig = "panic"
			res.err = fmt.Errorf("panic: %v", r)
		}
	}()
	versions := []*version{{trie: lpm.New[int](), origin: "New()"}}
	var iters []*retIter
	var (
		tx        *lpm.Txn[int]
		spare     *lpm.Txn[int] // a committed+cleared transaction object for Reuse
		txModel   model
		forkLeft  bool
		diverged  bool
		abandoned bool
	)
	begin := func(base int, reuse bool) {
		v := versions[((base%len(versions))+len(versions))%len(versions)]
		if reuse && spare != nil {
			tx = spare.Reuse(v.trie)
			spare = nil
			res.classes = append(res.classes, "reuse")
		} else {
			tx = v.trie.Txn()
		}
		txModel = model{}
		for _, e := range v.want {
			txModel[e.p] = e.v
		}
	}
	fail := func(sig, format string, args ...any) error {
		res.sig = sig
		return fmt.Errorf(format, args...)
	}
	readCheck := func(r reader, all []entry, kind int, q pfx, fq pfx, what string) error {
		switch ((kind % 7) + 7) % 7 {
		case 0:
			if r.Len() != len(all) {
				return fail("len", "%s: Len()=%d, model %d", what, r.Len(), len(all))
			}
		case 1:
			v, ok := r.LookupExact(u.key(q))
			wv, wok := 0, false
			for _, e := range all {
				if e.p == q {
					wv, wok = e.v, true
				}
			}
			if ok != wok || (ok && v != wv) {
				return fail("lookup-exact", "%s: LookupExact(%x/%d)=%d,%v, model %d,%v", what, q.bits, q.len, v, ok, wv, wok)
			}
		case 2:
			// Lookup of a full-length key: extend q with the bits given
			v, ok := r.Lookup(u.key(fq))
			wv, wok := wantLookup(all, fq)
			if ok != wok || (ok && v != wv) {
				return fail("lookup", "%s: Lookup(full-length %x/%d)=%d,%v, model %d,%v", what, fq.bits, fq.len, v, ok, wv, wok)
			}
		case 3:
			// a stored prefix always looks itself up
			if len(all) > 0 {
				e := all[(int(q.bits[0])+q.len)%len(all)]
				v, ok := r.Lookup(u.key(e.p))
				if !ok || v != e.v {
					return fail("lookup", "%s: Lookup(stored %x/%d)=%d,%v, model %d", what, e.p.bits, e.p.len, v, ok, e.v)
				}
			}
		case 4:
			got, want := collect(u, r.Prefix(u.key(q))), wantPrefix(all, q)
			if !eq(got, want) {
				return fail("prefix", "%s: Prefix(%x/%d)=%s, model %s (stored: %s)", what, q.bits, q.len, show(got), show(want), show(all))
			}
		case 5:
			got, want := collect(u, r.LowerBound(u.key(q))), wantLower(all, q)
			if !eq(got, want) {
				return fail("lowerbound", "%s: LowerBound(%x/%d)=%s, model %s", what, q.bits, q.len, show(got), show(want))
			}
		case 6:
			if got := collect(u, r.All()); !eq(got, all) {
				return fail("all", "%s: All()=%s, model %s", what, show(got), show(all))
			}
		}
		return nil
	}
	audit := func(step int) error {
		for i, v := range versions {
			if got := collect(u, v.trie.All()); !eq(got, v.want) {
				return fail("persistence", "step %d: committed trie #%d (%s) changed: now %s, recorded %s", step, i, v.origin, show(got), show(v.want))
			}
			if v.trie.Len() != len(v.want) {
				return fail("persistence", "step %d: committed trie #%d (%s) Len()=%d, recorded %d", step, i, v.origin, v.trie.Len(), len(v.want))
			}
		}
		for i, r := range iters {
			if got := collect(u, r.it); !eq(got, r.want) {
				return fail("persistence", "step %d: retained iterator #%d (%s) changed: now %s, recorded %s", step, i, r.origin, show(got), show(r.want))
			}
		}
		return nil
	}
	finish := func(commit bool, step int) {
		if commit {
			t := tx.Commit()
			versions = append(versions, &version{trie: t, want: txModel.sorted(), origin: fmt.Sprintf("commit at step %d", step)})
			tx.Clear()
			spare = tx
			res.classes = append(res.classes, "commit")
		} else {
			abandoned = true
			res.classes = append(res.classes, "abandon")
		}
		tx = nil
	}
	for step, o := range c.Ops {
		var err error
		q := u.norm(o.Bits, o.Flip, o.Len)
		switch o.K {
		case opBegin:
			if tx == nil {
				begin(o.A, o.B%2 == 1)
			}
		case opInsert:
			if tx == nil {
				begin(len(versions)-1, o.B%2 == 1)
			}
			if e := tx.Insert(u.key(q), o.Val); e != nil {
				err = fail("insert", "Insert(%x/%d) returned %v", q.bits, q.len, e)
			}
			txModel[q] = o.Val
		case opInsertComb:
			if tx == nil {
				begin(len(versions)-1, o.B%2 == 1)
			}
			max := u.width * 8
			var teeth []pfx
			teeth = append(teeth, u.norm(0, 0, max))
			for i := 0; i < o.N && o.Len+i < max; i++ {
				teeth = append(teeth, u.norm(0, 1+o.Len+i, max))
			}
			for i, p := range teeth {
				if e := tx.Insert(u.key(p), o.Val+i); e != nil {
					err = fail("insert", "Insert(%x/%d) returned %v", p.bits, p.len, e)
				}
				txModel[p] = o.Val + i
			}
			// lower-bound searches that leave many right siblings pending
			all := txModel.sorted()
			for i := 0; i < len(teeth) && err == nil; i += 1 + len(teeth)/8 {
				err = readCheck(tx, all, 5, teeth[i], teeth[i], "in-flight txn after a comb insert")
			}
			res.classes = append(res.classes, "comb")
		case opInsertChain, opDeleteChain:
			if tx == nil {
				begin(len(versions)-1, o.B%2 == 1)
			}
			for i := 0; i < o.N && err == nil && o.Len+i <= u.width*8; i++ {
				p := u.norm(o.Bits, o.Flip, o.Len+i)
				if o.K == opInsertChain {
					if e := tx.Insert(u.key(p), o.Val+i); e != nil {
						err = fail("insert", "Insert(%x/%d) returned %v", p.bits, p.len, e)
					}
					txModel[p] = o.Val + i
				} else {
					wv, wok := txModel[p]
					v, ok := tx.Delete(u.key(p))
					delete(txModel, p)
					if ok != wok || (ok && v != wv) {
						err = fail("delete", "Delete(%x/%d)=%d,%v, model %d,%v", p.bits, p.len, v, ok, wv, wok)
					}
				}
			}
			res.classes = append(res.classes, "chain")
		case opDelete:
			if tx == nil {
				begin(len(versions)-1, o.B%2 == 1)
			}
			wv, wok := txModel[q]
			if wok {
				// does the deleted prefix have stored descendants on both sides?
				var side [2]bool
				for p := range txModel {
					if p != q && covers(q, p) && p.len > q.len {
						side[(p.bits[q.len/8]>>(7-uint(q.len%8)))&1] = true
					}
				}
				if side[0] && side[1] {
					forkLeft = true
				}
			}
			v, ok := tx.Delete(u.key(q))
			delete(txModel, q)
			if ok != wok || (ok && v != wv) {
				err = fail("delete", "Delete(%x/%d)=%d,%v, model %d,%v", q.bits, q.len, v, ok, wv, wok)
			}
		case opRead:
			var (
				r    reader
				all  []entry
				what string
			)
			if tx != nil {
				r, all, what = tx, txModel.sorted(), "in-flight txn"
			} else {
				v := versions[((o.Val%len(versions))+len(versions))%len(versions)]
				r, all, what = &v.trie, v.want, "committed trie ("+v.origin+")"
			}
			if k := ((o.A % 7) + 7) % 7; k == 2 || k == 4 || k == 5 {
				stored := false
				part := false
				for _, e := range all {
					if e.p == q {
						stored = true
					}
					if cl := commonLen(e.p, q); cl > 0 && cl < e.p.len && cl < q.len {
						part = true
					}
				}
				if !stored && part {
					diverged = true
				}
			}
			err = readCheck(r, all, o.A, q, u.norm(o.Bits, o.Flip, u.width*8), what)
		case opIter:
			var (
				r   reader
				all []entry
			)
			if tx != nil {
				r, all = tx, txModel.sorted()
			} else {
				v := versions[((o.Val%len(versions))+len(versions))%len(versions)]
				r, all = &v.trie, v.want
			}
			var it *lpm.Iterator[int]
			var want []entry
			switch ((o.A % 2) + 2) % 2 {
			case 0:
				it, want = r.All(), all
			default:
				it, want = r.LowerBound(u.key(q)), wantLower(all, q)
			}
			for i := 0; i < o.B && err == nil; i++ {
				k, v, ok := it.Next()
				if len(want) == 0 {
					if ok {
						err = fail("iterate", "Next() yielded a value beyond the model")
					}
					break
				}
				if !ok || u.decode(k) != want[0].p || v != want[0].v {
					err = fail("iterate", "Next()=%x,%d,%v, model %x/%d=%d", k, v, ok, want[0].p.bits, want[0].p.len, want[0].v)
					break
				}
				want = want[1:]
			}
			iters = append(iters, &retIter{it: it, want: want, origin: fmt.Sprintf("iterator kind %d at step %d (in txn %v)", o.A%2, step, tx != nil)})
			res.classes = append(res.classes, "iter_retained")
		case opCommit:
			if tx != nil {
				finish(true, step)
			}
		case opAbandon:
			if tx != nil {
				finish(false, step)
			}
		}
		if err == nil {
			err = audit(step)
		}
		if err != nil {
			res.err = fmt.Errorf("step %d %v: %w", step, o, err)
			return res
		}
	}
	if tx != nil {
		finish(true, len(c.Ops))
		if err := audit(len(c.Ops)); err != nil {
			res.err = err
			return res
		}
	}
	if forkLeft {
		res.classes = append(res.classes, "imaginary_fork_by_delete")
	}
	if diverged {
		res.classes = append(res.classes, "diverging_query")
	}
	if abandoned {
		res.classes = append(res.classes, "had_abandon")
	}
	res.nontrivial = forkLeft && diverged
	return res
}

func genBits(t *rapid.T) uint32 {
	base := rapid.SampledFrom([]uint32{0x00000000, 0xffffffff, 0xaaaaaaaa, 0x80000000, 0x0a010100, 0x0a020000}).Draw(t, "base")
	for i := rapid.IntRange(0, 2).Draw(t, "flips"); i > 0; i-- {
		base ^= 1 << uint(31-rapid.IntRange(0, 31).Draw(t, "bit"))
	}
	return base
}

func genCase(t *rapid.T) Case {
	c := Case{Width: rapid.SampledFrom([]int{1, 2, 2, 4, 16}).Draw(t, "width")}
	max := c.Width * 8
	lens := []int{0, 1, 2, 7, 8, 9, 15, 16, 17, 23, 24, 25, 31, 32, 33, 63, 64, 65, 96, 120, 127, 128}
	kinds := []int{opBegin, opInsert, opInsert, opInsert, opInsert, opDelete, opDelete, opRead, opRead, opRead, opIter, opCommit, opCommit, opAbandon}
	if c.Width >= 4 && rapid.IntRange(0, 2).Draw(t, "chains") == 0 {
		// deep tries: runs of nested prefixes (more than 32 nodes on one path)
		kinds = append(kinds, opInsertChain, opInsertChain, opDeleteChain, opDelete, opInsertComb)
	}
	genOp := rapid.Custom(func(t *rapid.T) Op {
		o := Op{K: rapid.SampledFrom(kinds).Draw(t, "k")}
		o.Bits = genBits(t)
		if rapid.Bool().Draw(t, "anyLen") {
			o.Len = rapid.IntRange(0, max).Draw(t, "len")
		} else {
			o.Len = min(max, rapid.SampledFrom(lens).Draw(t, "len"))
		}
		if rapid.Bool().Draw(t, "flipLate") {
			o.Flip = 1 + rapid.IntRange(0, max-1).Draw(t, "flip")
		}
		o.Val = rapid.IntRange(0, 9).Draw(t, "val")
		if o.K == opInsertComb {
			o.N = rapid.SampledFrom([]int{3, 31, 32, 33, 40, 64, 100}).Draw(t, "teeth")
			o.Len = rapid.SampledFrom([]int{0, 0, 1, 8, 20}).Draw(t, "combFrom")
		}
		if o.K == opInsertChain || o.K == opDeleteChain {
			o.N = rapid.SampledFrom([]int{1, 2, 5, 30, 33, 34, 40, 70}).Draw(t, "chainLen")
			o.Len = rapid.SampledFrom([]int{0, 0, 1, 2, 20, 31, 32, 60}).Draw(t, "chainFrom")
		}
		o.A = rapid.IntRange(0, 6).Draw(t, "a")
		o.B = rapid.IntRange(0, 3).Draw(t, "b")
		return o
	})
	c.Ops = vk.Ops(t, genOp, 25, "ops")
	return c
}

const rule = "histories of 1..40 operations on lpm.Trie over 8/16/32/128-bit universes (prefix lengths 0..max, bit patterns sharing long common prefixes): inserts, deletes, runs of up to 70 nested prefixes (paths deeper than 32 nodes), combs (all-zeros key plus up to 100 single-bit keys: a left spine with a right sibling at every level), reads (Len, LookupExact, Lookup of full-length keys and of stored prefixes, Prefix, LowerBound, All) and partially consumed iterators inside transactions, commits (with Clear/Reuse of the transaction object), abandons and branches off any earlier version; all results compared with a map model ordered by (bits, length) and every committed trie and retained iterator re-read after every step. Non-trivial = a deletion left an imaginary fork (deleted prefix with stored descendants on both sides) and a Lookup/Prefix/LowerBound query diverged inside a compressed path; distinct by case encoding."

func TestC13Trie(t *testing.T) {
	const test = "TestC13Trie"
	var c Case
	if vk.Replaying() {
		if vk.Replay("C13", test, &c) {
			if res := run(c); res.err != nil {
				vk.Fail(t, "C13", test, c, res.sig, "%v", res.err)
			}
		}
		return
	}
	rec := vk.NewRecorder("C13", test, rule)
	defer rec.Flush()
	rapid.Check(t, func(rt *rapid.T) {
		c := genCase(rt)
		res := run(c)
		rec.Case(c, res.nontrivial, dedupe(res.classes)...)
		if res.err != nil {
			vk.Fail(rt, "C13", test, c, res.sig, "%v", res.err)
		}
	})
}

func dedupe(s []string) []string {
	seen := map[string]struct{}{}
	var out []string
	for _, e := range s {
		if _, ok := seen[e]; !ok {
			seen[e] = struct{}{}
			out = append(out, e)
		}
	}
	return out
}
