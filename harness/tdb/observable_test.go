//go:build verif

package tdb

import (
	"context"
	"fmt"
	"testing"
	"testing/synctest"
	"time"

	"github.com/cilium/statedb"
	"pgregory.net/rapid"

	"verifharness/vk"
)

// ObsCase: writes against one table observed through statedb.Observable.
type ObsCase struct {
	Steps []ObsStep `json:"steps"`
}

type ObsStep struct {
	Del    bool   `json:"del,omitempty"`
	ID     []byte `json:"id"`
	Commit bool   `json:"commit,omitempty"` // commit (and start a new transaction) after this write
	Abort  bool   `json:"abort,omitempty"`  // abort instead
	Settle bool   `json:"settle,omitempty"` // let the observer catch up after the commit
}

func runObservable(t *testing.T, c ObsCase) (err error, nontrivial bool) {
	synctest.Test(t, func(*testing.T) {
		db := statedb.New()
		tbl, e := newTable(db, "obs", TableSpec{Mask: 0})
		if e != nil {
			panic(e)
		}
		db.Start()
		defer db.Stop()
		ctx, cancel := context.WithCancel(context.Background())
		done := make(chan struct{})
		type ev struct {
			n       int
			rev     uint64
			deleted bool
			pk      string
		}
		var got []ev
		statedb.Observable[*Obj](db, tbl).Observe(ctx, func(ch statedb.Change[*Obj]) {
			got = append(got, ev{ch.Object.N, ch.Revision, ch.Deleted, string(ch.Object.ID)})
		}, func(error) { close(done) })
		synctest.Wait() // the observer registers its iterator first

		model := map[string]item{}
		work := map[string]item{}
		var rev, workRev uint64
		wtxn := db.WriteTxn(tbl)
		sawDelete, lagged := false, false
		pendingSettle := 0
		for i, s := range c.Steps {
			o := &Obj{N: i + 1, ID: cloneBytes(s.ID)}
			pk := string(o.ID)
			if s.Del {
				if _, ok := work[pk]; ok {
					workRev++
					delete(work, pk)
					sawDelete = true
				}
				tbl.Delete(wtxn, o)
			} else {
				workRev++
				work[pk] = item{o.N, workRev}
				tbl.Insert(wtxn, o)
			}
			switch {
			case s.Abort:
				wtxn.Abort()
				work = map[string]item{}
				for k, v := range model {
					work[k] = v
				}
				workRev = rev
				wtxn = db.WriteTxn(tbl)
			case s.Commit:
				wtxn.Commit()
				model = map[string]item{}
				for k, v := range work {
					model[k] = v
				}
				rev = workRev
				if s.Settle {
					synctest.Wait()
				} else {
					pendingSettle++
					if pendingSettle >= 2 {
						lagged = true
					}
				}
				wtxn = db.WriteTxn(tbl)
			}
		}
		wtxn.Commit()
		model = work
		time.Sleep(time.Second)
		synctest.Wait()
		// replay what the observer was told
		replay := map[string]item{}
		var last uint64
		for _, e := range got {
			if e.rev <= last {
				err = fmt.Errorf("Observable delivered revision %d after %d", e.rev, last)
				break
			}
			last = e.rev
			if e.deleted {
				delete(replay, e.pk)
			} else {
				replay[e.pk] = item{e.n, e.rev}
			}
		}
		if err == nil {
			if len(replay) != len(model) {
				err = fmt.Errorf("replaying the observed stream gives %d objects, the table has %d (stream %v)", len(replay), len(model), got)
			}
			for k, v := range model {
				if replay[k] != v {
					err = fmt.Errorf("replaying the observed stream gives %v for key %x, the table has %v (stream %v)", replay[k], k, v, got)
				}
			}
		}
		nontrivial = sawDelete && lagged
		cancel()
		<-done
	})
	return
}

func TestC07Observable(t *testing.T) {
	const test = "TestC07Observable"
	var c ObsCase
	if vk.Replaying() {
		if vk.Replay("C07", test, &c) {
			if err, _ := runObservable(t, c); err != nil {
				vk.Fail(t, "C07", test, c, "observable", "%v", err)
			}
		}
		return
	}
	rec := vk.NewRecorder("C07", test, "a stream of inserts and deletes over few keys grouped into committed and aborted transactions, observed through statedb.Observable (a goroutine looping over ChangeIterator.Next with fresh snapshots) inside a synctest bubble with the graveyard worker running; the observer is let to catch up after some commits and lags behind others. Oracle: delivered revisions strictly increase and replaying the whole stream gives exactly the final table. Non-trivial = a deletion happened and the observer lagged at least two commits; distinct by case encoding.")
	defer rec.Flush()
	rapid.Check(t, func(rt *rapid.T) {
		step := rapid.Custom(func(t *rapid.T) ObsStep {
			s := ObsStep{Del: rapid.IntRange(0, 2).Draw(t, "del") == 0, ID: rapid.SampledFrom(idPool[:5]).Draw(t, "id")}
			switch rapid.IntRange(0, 5).Draw(t, "end") {
			case 0, 1:
				s.Commit = true
				s.Settle = rapid.Bool().Draw(t, "settle")
			case 2:
				s.Abort = true
			}
			return s
		})
		c := ObsCase{Steps: vk.Ops(rt, step, 15, "steps")}
		err, nt := runObservable(t, c)
		rec.Case(c, nt)
		if err != nil {
			vk.Fail(rt, "C07", test, c, "observable", "%v", err)
		}
	})
}
