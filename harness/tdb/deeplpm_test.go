//go:build verif

package tdb

import (
	"bytes"
	"fmt"
	"iter"
	"sort"
	"testing"

	"github.com/cilium/statedb"
	"github.com/cilium/statedb/index"
	"pgregory.net/rapid"

	"verifharness/vk"
)

// C04 over LPM indexes with wide keys (64 and 128 bits): the E-DB schema keeps
// its LPM universes at 16 and 32 bits so that a full audit is affordable, which
// leaves paths deeper than 32 trie nodes (the size of the traversal stacks in
// lpm) out of reach of table queries. This interpreter has its own small model
// and generates deep shapes: chains of nested prefixes and combs (a left spine
// with a right sibling at every level).

const (
	dInsert = iota
	dDelete
	dChain // N nested prefixes q/len, q/len+1, ...: one object each
	dComb  // N prefixes 0^i 1/(i+1) plus the all-zeros full-length key
	dCombFull // the all-zeros key and N full-length keys with exactly one bit set
	dDeleteRange
	dCommit
	dAbort
	dQuery
)

var dNames = []string{"insert", "delete", "chain", "comb", "combFull", "deleteRange", "commit", "abort", "query"}

type DOp struct {
	K    int    `json:"k"`
	ID   int    `json:"id,omitempty"`
	Bits uint32 `json:"bits,omitempty"` // pattern repeated over the key width
	Flip int    `json:"flip,omitempty"` // 1+position of an extra flipped bit
	Len  int    `json:"len,omitempty"`
	N    int    `json:"n,omitempty"`
	Q    int    `json:"q,omitempty"` // query kind: qGet, qList, qPrefix, qLowerBound
}

func (o DOp) String() string {
	return fmt.Sprintf("%s(id=%d bits=%08x flip=%d len=%d n=%d q=%d)", dNames[o.K], o.ID, o.Bits, o.Flip, o.Len, o.N, o.Q)
}

type DCase struct {
	Width int   `json:"width"` // bytes: 8 or 16
	Ops   []DOp `json:"ops"`
}

type dpfx struct {
	bits [16]byte
	len  int
}

func dmask(bits [16]byte, l int) [16]byte {
	var out [16]byte
	for i := 0; i < 16; i++ {
		switch {
		case l >= (i+1)*8:
			out[i] = bits[i]
		case l <= i*8:
		default:
			out[i] = bits[i] & (0xff << (8 - l%8))
		}
	}
	return out
}

func dless(a, b dpfx) bool {
	if c := bytes.Compare(a.bits[:], b.bits[:]); c != 0 {
		return c < 0
	}
	return a.len < b.len
}

func dcovers(p, q dpfx) bool { return p.len <= q.len && dmask(q.bits, p.len) == p.bits }

type DObj struct {
	ID  uint16
	P   dpfx
	W   int // key width in bytes
	Ver int
}

func (o *DObj) TableHeader() []string { return []string{"ID", "Prefix", "Ver"} }
func (o *DObj) TableRow() []string {
	return []string{fmt.Sprint(o.ID), fmt.Sprintf("%x/%d", o.P.bits[:o.W], o.P.len), fmt.Sprint(o.Ver)}
}

var (
	dIDIndex = statedb.Index[*DObj, uint16]{
		Name:       "id",
		FromObject: func(o *DObj) index.KeySet { return index.NewKeySet(index.Uint16(o.ID)) },
		FromKey:    index.Uint16,
		Unique:     true,
	}
	dLPMIndex = statedb.LPMIndex[*DObj]{
		Name: "lpm",
		FromObject: func(o *DObj) iter.Seq2[[]byte, statedb.PrefixLen] {
			return func(yield func([]byte, statedb.PrefixLen) bool) {
				yield(o.P.bits[:o.W], statedb.PrefixLen(o.P.len))
			}
		},
		Unique: false,
	}
)

type dItem struct {
	id  uint16
	ver int
	rev statedb.Revision
}

type dModel map[uint16]dItem // id -> current version; the prefix is in objs

type dWorld struct {
	c     DCase
	db    *statedb.DB
	tbl   statedb.RWTable[*DObj]
	objs  map[[2]int]*DObj // (id, ver) -> object
	com   dModel
	cur   dModel
	wtxn  statedb.WriteTxn
	ver   int
	step  int
	class map[string]bool
}

func (w *dWorld) norm(bits uint32, flip, l int) dpfx {
	var b [16]byte
	for i := 0; i < 16; i += 4 {
		b[i], b[i+1], b[i+2], b[i+3] = byte(bits>>24), byte(bits>>16), byte(bits>>8), byte(bits)
	}
	max := w.c.Width * 8
	if flip > 0 {
		pos := (flip - 1) % max
		b[pos/8] ^= 0x80 >> uint(pos%8)
	}
	for i := w.c.Width; i < 16; i++ {
		b[i] = 0
	}
	if l < 0 {
		l = 0
	}
	if l > max {
		l = max
	}
	return dpfx{dmask(b, l), l}
}

func cloneD(m dModel) dModel {
	c := make(dModel, len(m))
	for k, v := range m {
		c[k] = v
	}
	return c
}

type dErr struct{ msg string }

func (w *dWorld) fail(format string, args ...any) {
	op := "(end of case)"
	if w.step < len(w.c.Ops) {
		op = w.c.Ops[w.step].String()
	}
	panic(dErr{fmt.Sprintf("step %d %s: %s", w.step, op, fmt.Sprintf(format, args...))})
}

func (w *dWorld) begin() {
	if w.wtxn == nil {
		w.wtxn = w.db.WriteTxn(w.tbl)
		w.cur = cloneD(w.com)
	}
}

func (w *dWorld) insert(id uint16, p dpfx) {
	w.begin()
	w.ver++
	o := &DObj{ID: id, P: p, W: w.c.Width, Ver: w.ver}
	w.objs[[2]int{int(id), o.Ver}] = o
	old, had, err := w.tbl.Insert(w.wtxn, o)
	prev, exists := w.cur[id]
	if err != nil {
		w.fail("Insert: %v", err)
	}
	if had != exists || (had && old.Ver != prev.ver) {
		w.fail("Insert(id %d) returned old=%v had=%v, model has %v (exists=%v)", id, old, had, prev, exists)
	}
	w.cur[id] = dItem{id, o.Ver, w.tbl.Revision(w.wtxn)}
}

func (w *dWorld) delete(id uint16) {
	w.begin()
	prev, exists := w.cur[id]
	_, had, err := w.tbl.Delete(w.wtxn, &DObj{ID: id, W: w.c.Width})
	if err != nil {
		w.fail("Delete: %v", err)
	}
	if had != exists {
		w.fail("Delete(id %d) had=%v, model has %v (exists=%v)", id, had, prev, exists)
	}
	delete(w.cur, id)
}

type dEnt struct {
	p    dpfx
	objs []dItem
}

func (w *dWorld) entries(m dModel) []dEnt {
	by := map[dpfx]*dEnt{}
	for id, it := range m {
		p := w.objs[[2]int{int(id), it.ver}].P
		e := by[p]
		if e == nil {
			e = &dEnt{p: p}
			by[p] = e
		}
		e.objs = append(e.objs, it)
	}
	out := make([]dEnt, 0, len(by))
	for _, e := range by {
		sort.Slice(e.objs, func(i, j int) bool { return e.objs[i].id < e.objs[j].id })
		out = append(out, *e)
	}
	sort.Slice(out, func(i, j int) bool { return dless(out[i].p, out[j].p) })
	return out
}

func (w *dWorld) expected(m dModel, kind int, q dpfx) []dItem {
	ents := w.entries(m)
	var out []dItem
	switch kind {
	case qGet, qList:
		best := -1
		for i, e := range ents {
			if dcovers(e.p, q) && (best < 0 || e.p.len > ents[best].p.len) {
				best = i
			}
		}
		if best >= 0 {
			out = append(out, ents[best].objs...)
			if kind == qGet {
				out = out[:1]
			}
		}
	case qPrefix:
		for _, e := range ents {
			if dcovers(q, e.p) {
				out = append(out, e.objs...)
			}
		}
	case qLowerBound:
		for _, e := range ents {
			if !dless(e.p, q) {
				out = append(out, e.objs...)
			}
		}
	}
	return out
}

func (w *dWorld) ask(txn statedb.ReadTxn, kind int, q dpfx) []dItem {
	qq := dLPMIndex.Query(q.bits[:w.c.Width], statedb.PrefixLen(q.len))
	var out []dItem
	add := func(o *DObj, rev statedb.Revision) { out = append(out, dItem{o.ID, o.Ver, rev}) }
	switch kind {
	case qGet:
		if o, rev, ok := w.tbl.Get(txn, qq); ok {
			add(o, rev)
		}
	case qList:
		for o, rev := range w.tbl.List(txn, qq) {
			add(o, rev)
		}
	case qPrefix:
		for o, rev := range w.tbl.Prefix(txn, qq) {
			add(o, rev)
		}
	case qLowerBound:
		for o, rev := range w.tbl.LowerBound(txn, qq) {
			add(o, rev)
		}
	}
	return out
}

func (w *dWorld) check(where string, txn statedb.ReadTxn, m dModel, kind int, q dpfx) {
	got, want := w.ask(txn, kind, q), w.expected(m, kind, q)
	if len(want) > 32 {
		w.class["answer_over_32_objects"] = true
	}
	if fmt.Sprint(got) != fmt.Sprint(want) {
		w.fail("%s: %s(lpm %x/%d): got %d objects %v, want %d %v", where, qNames[kind], q.bits[:w.c.Width], q.len, len(got), short(got), len(want), short(want))
	}
}

func short(x []dItem) string {
	if len(x) > 12 {
		return fmt.Sprintf("%v ... %v", x[:6], x[len(x)-6:])
	}
	return fmt.Sprint(x)
}

// audit: the standing questions - everything from the smallest key, everything
// below the empty prefix, the number of objects, and for the first, middle and
// last stored prefix: exact lookups and the bounds at them.
func (w *dWorld) audit(where string, txn statedb.ReadTxn, m dModel) {
	if n := w.tbl.NumObjects(txn); n != len(m) {
		w.fail("%s: NumObjects = %d, model has %d", where, n, len(m))
	}
	zero := dpfx{}
	w.check(where, txn, m, qLowerBound, zero)
	w.check(where, txn, m, qPrefix, zero)
	w.check(where, txn, m, qLowerBound, dpfx{len: w.c.Width * 8})
	ents := w.entries(m)
	if len(ents) > 32 {
		w.class["over_32_stored_prefixes"] = true
	}
	for _, i := range []int{0, len(ents) / 2, len(ents) - 1} {
		if i < 0 || i >= len(ents) {
			continue
		}
		p := ents[i].p
		w.check(where, txn, m, qGet, p)
		w.check(where, txn, m, qList, p)
		w.check(where, txn, m, qLowerBound, p)
		w.check(where, txn, m, qPrefix, p)
		full := p
		full.len = w.c.Width * 8
		w.check(where, txn, m, qList, full)
	}
}

func runDeep(c DCase) (classes []string, nontrivial bool, err error) {
	w := &dWorld{c: c, objs: map[[2]int]*DObj{}, com: dModel{}, class: map[string]bool{}}
	defer func() {
		for k := range w.class {
			classes = append(classes, k)
		}
		sort.Strings(classes)
		nontrivial = w.class["over_32_stored_prefixes"] && (w.class["query_in_txn"] || w.class["committed_audit"])
		if w.wtxn != nil {
			func() { defer func() { recover() }(); w.wtxn.Abort() }()
		}
		if r := recover(); r != nil {
			if de, ok := r.(dErr); ok {
				err = fmt.Errorf("%s", de.msg)
				return
			}
			err = fmt.Errorf("step %d: panic in statedb: %v", w.step, r)
		}
	}()
	w.db = statedb.New()
	var e error
	w.tbl, e = statedb.NewTable[*DObj](w.db, "deep", dIDIndex, dLPMIndex)
	if e != nil {
		return nil, false, e
	}
	max := c.Width * 8
	for i, o := range c.Ops {
		w.step = i
		switch o.K {
		case dInsert:
			w.insert(uint16(o.ID), w.norm(o.Bits, o.Flip, o.Len))
		case dDelete:
			w.delete(uint16(o.ID))
		case dChain:
			for j := 0; j < o.N && o.Len+j <= max; j++ {
				w.insert(uint16(o.ID+j), w.norm(o.Bits, o.Flip, o.Len+j))
			}
			w.class["chain"] = true
		case dComb:
			for j := 0; j < o.N && j < max; j++ {
				var p dpfx
				p.bits[j/8] = 0x80 >> uint(j%8)
				p.len = j + 1
				w.insert(uint16(o.ID+j), p)
			}
			w.insert(uint16(o.ID+o.N), dpfx{len: max})
			w.class["comb"] = true
		case dCombFull:
			for j := 0; j < o.N && j < max; j++ {
				var p dpfx
				p.bits[j/8] = 0x80 >> uint(j%8)
				p.len = max
				w.insert(uint16(o.ID+j), p)
			}
			w.insert(uint16(o.ID+o.N), dpfx{len: max})
			w.class["comb_full_length"] = true
		case dDeleteRange:
			for j := 0; j < o.N; j++ {
				w.delete(uint16(o.ID + j))
			}
		case dCommit:
			if w.wtxn != nil {
				w.audit("inside the write transaction before Commit", w.wtxn, w.cur)
				rtxn := w.wtxn.Commit()
				w.wtxn = nil
				w.com = w.cur
				w.audit("snapshot returned by Commit", rtxn, w.com)
				w.class["committed_audit"] = true
			}
			w.audit("fresh snapshot", w.db.ReadTxn(), w.com)
		case dAbort:
			if w.wtxn != nil {
				w.wtxn.Abort()
				w.wtxn = nil
				w.audit("fresh snapshot after Abort", w.db.ReadTxn(), w.com)
			}
		case dQuery:
			kind := qGet + o.Q%4
			// the statement speaks of full-length keys and stored prefixes for
			// Get/List: anything else is replaced by the full-length key
			pick := func(m dModel) dpfx {
				q := w.norm(o.Bits, o.Flip, o.Len)
				if kind == qGet || kind == qList {
					stored := false
					for _, e := range w.entries(m) {
						stored = stored || e.p == q
					}
					if !stored {
						q = w.norm(o.Bits, o.Flip, max)
					}
				}
				return q
			}
			if w.wtxn != nil {
				w.check("inside the write transaction", w.wtxn, w.cur, kind, pick(w.cur))
				w.class["query_in_txn"] = true
			}
			w.check("fresh snapshot", w.db.ReadTxn(), w.com, kind, pick(w.com))
		}
	}
	w.step = len(c.Ops)
	if w.wtxn != nil {
		w.audit("inside the write transaction at the end", w.wtxn, w.cur)
		w.wtxn.Commit()
		w.wtxn = nil
		w.com = w.cur
	}
	w.audit("final snapshot", w.db.ReadTxn(), w.com)
	return
}

func genDeepCase(t *rapid.T) DCase {
	c := DCase{Width: rapid.SampledFrom([]int{8, 16}).Draw(t, "width")}
	max := c.Width * 8
	bits := rapid.SampledFrom([]uint32{0, 0xffffffff, 0xaaaaaaaa, 0x80000000, 0x00000001, 0x0f0f0f0f})
	op := rapid.Custom(func(t *rapid.T) DOp {
		o := DOp{K: rapid.SampledFrom([]int{dInsert, dInsert, dInsert, dDelete, dChain, dChain, dComb, dCombFull, dDeleteRange, dCommit, dCommit, dAbort, dQuery, dQuery, dQuery, dQuery}).Draw(t, "k")}
		switch o.K {
		case dInsert, dQuery:
			o.ID = rapid.IntRange(0, 400).Draw(t, "id")
			o.Bits = bits.Draw(t, "bits")
			o.Flip = rapid.SampledFrom([]int{0, 0, 1, 2, 33, 34, 40, 63, 64, 65, 100, 128}).Draw(t, "flip")
			o.Len = rapid.SampledFrom([]int{0, 1, 2, 8, 31, 32, 33, 34, 40, 48, 63, max - 1, max}).Draw(t, "len")
			o.Q = rapid.IntRange(0, 3).Draw(t, "q")
		case dDelete:
			o.ID = rapid.IntRange(0, 400).Draw(t, "id")
		case dChain:
			o.ID = rapid.SampledFrom([]int{0, 100, 200}).Draw(t, "id")
			o.Bits = bits.Draw(t, "bits")
			o.Len = rapid.SampledFrom([]int{0, 1, 20, 30}).Draw(t, "len")
			o.N = rapid.SampledFrom([]int{5, 33, 40, 70}).Draw(t, "n")
		case dComb, dCombFull:
			o.ID = rapid.SampledFrom([]int{0, 100, 300}).Draw(t, "id")
			o.N = rapid.SampledFrom([]int{8, 31, 32, 33, 40, 64, 90}).Draw(t, "n")
		case dDeleteRange:
			o.ID = rapid.SampledFrom([]int{0, 10, 100, 120, 300}).Draw(t, "id")
			o.N = rapid.SampledFrom([]int{1, 5, 30, 60}).Draw(t, "n")
		}
		return o
	})
	c.Ops = rapid.SliceOfN(op, 1, 14).Draw(t, "ops")
	return c
}

const ruleC04Deep = "tables with a non-unique LPM index over 64- and 128-bit keys: single inserts/deletes, chains of up to 70 nested prefixes, combs of up to 90 levels (prefixes 0^i 1/(i+1), or full-length keys with one bit set, plus the all-zeros key), range deletes, commits and aborts; Get/List (full-length keys and stored prefixes), Prefix and LowerBound with generated and standing queries (from the zero prefix, from the all-zeros key, at the first/middle/last stored prefix) inside the write transaction, on the snapshot returned by Commit and on fresh snapshots. Oracle: exact object sequences (identity, revision) from a sorted model of (bits, length) entries, objects of one prefix by primary key. Non-trivial = more than 32 stored prefixes at some audit and a query inside the transaction or a committed audit; distinct by case encoding."

func TestC04DeepLPM(t *testing.T) {
	const test = "TestC04DeepLPM"
	var c DCase
	if vk.Replaying() {
		if vk.Replay("C04", test, &c) {
			if _, _, err := runDeep(c); err != nil {
				vk.Fail(t, "C04", test, c, "deep-lpm", "%v", err)
			}
		}
		return
	}
	rec := vk.NewRecorder("C04", test, ruleC04Deep)
	defer rec.Flush()
	rapid.Check(t, func(rt *rapid.T) {
		c := genDeepCase(rt)
		classes, nt, err := runDeep(c)
		rec.Case(c, nt, classes...)
		if err != nil {
			vk.Fail(rt, "C04", test, c, "deep-lpm", "%v", err)
		}
	})
}
