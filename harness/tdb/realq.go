//go:build verif

package tdb

import (
	"fmt"
	"hash/fnv"
	"iter"

	"github.com/cilium/statedb"
)

func collectSeq(seq iter.Seq2[*Obj, statedb.Revision]) []item {
	var out []item
	for o, r := range seq {
		out = append(out, item{o.N, r})
	}
	return out
}

func collectAny(seq iter.Seq2[any, statedb.Revision]) []item {
	var out []item
	for o, r := range seq {
		out = append(out, item{o.(*Obj).N, r})
	}
	return out
}

// runQuery executes a query through the typed API (watch variants).
func runQuery(tbl statedb.Table[*Obj], txn statedb.ReadTxn, q Query) ([]item, <-chan struct{}) {
	switch q.Kind {
	case qGet:
		o, rev, w, ok := tbl.GetWatch(txn, q.sdbQuery())
		if !ok {
			return nil, w
		}
		return []item{{o.N, rev}}, w
	case qList:
		seq, w := tbl.ListWatch(txn, q.sdbQuery())
		return collectSeq(seq), w
	case qPrefix:
		seq, w := tbl.PrefixWatch(txn, q.sdbQuery())
		return collectSeq(seq), w
	case qLowerBound:
		seq, w := tbl.LowerBoundWatch(txn, q.sdbQuery())
		return collectSeq(seq), w
	case qAll:
		seq, w := tbl.AllWatch(txn)
		return collectSeq(seq), w
	}
	panic("bad query kind")
}

// lazyQuery returns the unconsumed iterator of a sequence query (nil for Get).
func lazyQuery(tbl statedb.Table[*Obj], txn statedb.ReadTxn, q Query) iter.Seq2[*Obj, statedb.Revision] {
	switch q.Kind {
	case qList:
		return tbl.List(txn, q.sdbQuery())
	case qPrefix:
		return tbl.Prefix(txn, q.sdbQuery())
	case qLowerBound:
		return tbl.LowerBound(txn, q.sdbQuery())
	case qAll:
		return tbl.All(txn)
	}
	return nil
}

// runQueryAny executes the same query through AnyTable's string interface.
func runQueryAny(tbl statedb.Table[*Obj], txn statedb.ReadTxn, q Query) ([]item, error) {
	at := statedb.AnyTable{Meta: tbl}
	idx, key := q.stringForm()
	switch q.Kind {
	case qGet:
		o, rev, ok, err := at.Get(txn, idx, key)
		if err != nil || !ok {
			return nil, err
		}
		return []item{{o.(*Obj).N, rev}}, nil
	case qList:
		seq, err := at.List(txn, idx, key)
		if err != nil {
			return nil, err
		}
		return collectAny(seq), nil
	case qPrefix:
		seq, err := at.Prefix(txn, idx, key)
		if err != nil {
			return nil, err
		}
		return collectAny(seq), nil
	case qLowerBound:
		seq, err := at.LowerBound(txn, idx, key)
		if err != nil {
			return nil, err
		}
		return collectAny(seq), nil
	case qAll:
		return collectAny(at.All(txn)), nil
	}
	panic("bad query kind")
}

var auditAlphabet = []byte{0x00, 0x01, 0x02, 'a', 0xff}

// auditKeys: every byte string over the alphabet of length <= 2.
var auditKeys = func() [][]byte {
	out := [][]byte{{}}
	for _, a := range auditAlphabet {
		out = append(out, []byte{a})
	}
	for _, a := range auditAlphabet {
		for _, b := range auditAlphabet {
			out = append(out, []byte{a, b})
		}
	}
	return out
}()

var auditPfx = func() []P {
	var out []P
	for _, bits := range []uint16{0x0000, 0x8000, 0xa000, 0xa0a0, 0xa080, 0xffff} {
		for _, l := range []int{0, 1, 3, 4, 8, 9, 12, 16} {
			p := P{bits, l}.norm()
			dup := false
			for _, o := range out {
				if o == p {
					dup = true
				}
			}
			if !dup {
				out = append(out, p)
			}
		}
	}
	return out
}()

// auditQueries is the fixed, deterministic list of queries of a full audit of
// one table; extra holds state-dependent keys (composite unique keys of the
// objects present when the audit list is built).
func auditQueries(spec TableSpec, st *tState) []Query {
	var qs []Query
	qs = append(qs, Query{Idx: idxID, Kind: qAll})
	qs = append(qs, Query{Idx: idxRev, Kind: qLowerBound, Rev: 0})
	if st != nil && st.rev > 1 {
		qs = append(qs, Query{Idx: idxRev, Kind: qLowerBound, Rev: st.rev/2 + 1})
	}
	for _, idx := range []int{idxID, idxU, idxTags} {
		if !spec.has(idx) {
			continue
		}
		for _, k := range auditKeys {
			for kind := qGet; kind <= qLowerBound; kind++ {
				if idx == idxU && (kind == qGet || kind == qList) {
					continue // raw alphabet keys are never complete unique keys; see below
				}
				qs = append(qs, Query{Idx: idx, Kind: kind, Key: k})
			}
		}
	}
	if spec.has(idxU) && st != nil {
		for _, p := range st.pairs(idxU) {
			qs = append(qs, Query{Idx: idxU, Kind: qGet, Key: []byte(p.key)}, Query{Idx: idxU, Kind: qList, Key: []byte(p.key)})
		}
	}
	if spec.has(idxLPM) {
		for _, p := range auditPfx {
			stored := st != nil && st.lpmStored(Query{Idx: idxLPM, Pfx: p})
			if p.Len == 16 || stored {
				qs = append(qs, Query{Idx: idxLPM, Kind: qGet, Pfx: p}, Query{Idx: idxLPM, Kind: qList, Pfx: p})
			}
			qs = append(qs, Query{Idx: idxLPM, Kind: qPrefix, Pfx: p}, Query{Idx: idxLPM, Kind: qLowerBound, Pfx: p})
		}
	}
	if spec.has(idxULPM) {
		for _, k := range auditKeys {
			for _, l := range []int{0, 8, 12, 16, 24, 32} {
				q := Query{Idx: idxULPM, Key: k, Len: l}
				stored := st != nil && st.lpmStored(q)
				if l == 8*ulpmBytes || stored {
					q.Kind = qGet
					qs = append(qs, q)
					q.Kind = qList
					qs = append(qs, q)
				}
				if len(k) <= 1 {
					q.Kind = qPrefix
					qs = append(qs, q)
					q.Kind = qLowerBound
					qs = append(qs, q)
				}
			}
		}
	}
	return qs
}

// answers of an audit: one entry per query plus table-level facts.
type tableAudit struct {
	queries []Query
	answers [][]item
	numObj  int
	rev     uint64
	init    bool
	pending []string
}

func auditTable(tbl statedb.RWTable[*Obj], txn statedb.ReadTxn, qs []Query) tableAudit {
	a := tableAudit{queries: qs, answers: make([][]item, len(qs))}
	for i, q := range qs {
		a.answers[i], _ = runQuery(tbl, txn, q)
	}
	a.numObj = tbl.NumObjects(txn)
	a.rev = tbl.Revision(txn)
	a.init, _ = tbl.Initialized(txn)
	a.pending = append([]string(nil), tbl.PendingInitializers(txn)...)
	return a
}

func eqItems(a, b []item) bool {
	if len(a) != len(b) {
		return false
	}
	for i := range a {
		if a[i] != b[i] {
			return false
		}
	}
	return true
}

func eqStrings(a, b []string) bool {
	if len(a) != len(b) {
		return false
	}
	for i := range a {
		if a[i] != b[i] {
			return false
		}
	}
	return true
}

// diff returns a description of the first difference between two audits of
// the same query list, or "".
func (a tableAudit) diff(b tableAudit) string {
	if a.numObj != b.numObj {
		return fmt.Sprintf("NumObjects %d vs %d", a.numObj, b.numObj)
	}
	if a.rev != b.rev {
		return fmt.Sprintf("Revision %d vs %d", a.rev, b.rev)
	}
	if a.init != b.init || !eqStrings(a.pending, b.pending) {
		return fmt.Sprintf("Initialized %v %v vs %v %v", a.init, a.pending, b.init, b.pending)
	}
	for i := range a.answers {
		if !eqItems(a.answers[i], b.answers[i]) {
			return fmt.Sprintf("%v: %v vs %v", a.queries[i], a.answers[i], b.answers[i])
		}
	}
	return ""
}

// lightDigest: table-granular fingerprint used at hook points (cheap).
func lightDigest(tbl statedb.RWTable[*Obj], txn statedb.ReadTxn) uint64 {
	h := fnv.New64a()
	var buf [16]byte
	put := func(a, b uint64) {
		for i := 0; i < 8; i++ {
			buf[i] = byte(a >> (8 * i))
			buf[8+i] = byte(b >> (8 * i))
		}
		h.Write(buf[:])
	}
	put(tbl.Revision(txn), uint64(tbl.NumObjects(txn)))
	for o, r := range tbl.All(txn) {
		put(uint64(o.N), r)
	}
	for o, r := range tbl.LowerBound(txn, statedb.ByRevision[*Obj](0)) {
		put(uint64(o.N)+1, r)
	}
	init, _ := tbl.Initialized(txn)
	if init {
		put(1, uint64(len(tbl.PendingInitializers(txn))))
	} else {
		put(0, uint64(len(tbl.PendingInitializers(txn))))
	}
	return h.Sum64()
}

// modelDigest computes what lightDigest must return for a model state.
func modelDigest(st *tState) uint64 {
	h := fnv.New64a()
	var buf [16]byte
	put := func(a, b uint64) {
		for i := 0; i < 8; i++ {
			buf[i] = byte(a >> (8 * i))
			buf[8+i] = byte(b >> (8 * i))
		}
		h.Write(buf[:])
	}
	put(st.rev, uint64(len(st.objs)))
	for _, it := range st.expectedAll().items {
		put(uint64(it.n), it.rev)
	}
	for _, it := range st.expected(Query{Idx: idxRev, Kind: qLowerBound}).items {
		put(uint64(it.n)+1, it.rev)
	}
	if len(st.pending) == 0 {
		put(1, 0)
	} else {
		put(0, uint64(len(st.pending)))
	}
	return h.Sum64()
}
