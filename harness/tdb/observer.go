//go:build verif

package tdb

import (
	"sync"
	"sync/atomic"

	"github.com/cilium/statedb"
)

// observer is a free-running goroutine that watches the database while the
// main goroutine executes the case. It sees what a concurrent reader/waiter
// can see *between* hook points (e.g. between a premature notification and the
// root store). Everything it records is judged later by the main goroutine
// with interleaving-independent rules, so it can only miss, never misjudge.
type observer struct {
	in      *interp
	stop    chan struct{}
	done    chan struct{}
	watches atomic.Pointer[[]*watchState]
	inits   atomic.Pointer[[]*initWatch]

	mu     sync.Mutex
	closes []closeObs // C06: a retained channel was seen closed; revision read right after
	iclose []initObs  // C19
	tuples [][]uint64 // C02: distinct fingerprints of all tables, in observation order
	seenW  map[*watchState]bool
	seenI  map[*initWatch]bool
}

type closeObs struct {
	ws  *watchState
	rev uint64
}

type initObs struct {
	iw   *initWatch
	init bool
}

func newObserver(in *interp) *observer {
	o := &observer{in: in, stop: make(chan struct{}), done: make(chan struct{}), seenW: map[*watchState]bool{}, seenI: map[*initWatch]bool{}}
	go o.loop()
	return o
}

func (o *observer) publish() {
	ws := append([]*watchState(nil), o.in.watches...)
	o.watches.Store(&ws)
	iw := append([]*initWatch(nil), o.in.iwatches...)
	o.inits.Store(&iw)
}

func (o *observer) loop() {
	defer close(o.done)
	in := o.in
	var last []uint64
	for {
		select {
		case <-o.stop:
			return
		default:
		}
		switch in.own {
		case "C06":
			if p := o.watches.Load(); p != nil {
				for _, ws := range *p {
					if o.seenW[ws] || !isClosed(ws.ch) {
						continue
					}
					// observed closed: a snapshot taken now must show the change
					rev := in.tbls[ws.table].Revision(in.db.ReadTxn())
					o.seenW[ws] = true
					o.mu.Lock()
					o.closes = append(o.closes, closeObs{ws, rev})
					o.mu.Unlock()
				}
			}
		case "C19":
			if p := o.inits.Load(); p != nil {
				for _, iw := range *p {
					if o.seenI[iw] || !isClosed(iw.ch) {
						continue
					}
					ok, _ := in.tbls[iw.table].Initialized(in.db.ReadTxn())
					o.seenI[iw] = true
					o.mu.Lock()
					o.iclose = append(o.iclose, initObs{iw, ok})
					o.mu.Unlock()
				}
			}
		case "C02":
			rtxn := in.db.ReadTxn()
			cur := make([]uint64, len(in.tbls))
			for i, t := range in.tbls {
				cur[i] = lightDigest(t, rtxn)
			}
			same := last != nil
			for i := range cur {
				if last == nil || cur[i] != last[i] {
					same = false
				}
			}
			if !same {
				last = cur
				o.mu.Lock()
				o.tuples = append(o.tuples, cur)
				o.mu.Unlock()
			}
		}
	}
}

func (o *observer) close() {
	close(o.stop)
	<-o.done
}

// drain judges what the observer saw so far (called by the main goroutine at
// operation boundaries).
func (in *interp) drainObserver() {
	o := in.obs
	if o == nil {
		return
	}
	o.mu.Lock()
	closes, iclose, tuples := o.closes, o.iclose, o.tuples
	o.closes, o.iclose, o.tuples = nil, nil, nil
	o.mu.Unlock()
	for _, c := range closes {
		if c.rev <= c.ws.baseRev {
			// Without a newer revision the close can only stem from a commit that
			// made no successful write to the table (rejected operations dirty the
			// index) - or from a notification that ran ahead of the root store. The
			// observer may lag, so any such commit since the hand-out excuses it.
			if c.ws.noopSince || in.lastNoopCommit(c.ws.table) {
				in.res.class("spurious_on_noop_commit")
				continue
			}
			in.violNoStop("C06", "early-wakeup", "a concurrent waiter saw the channel from %s closed, took a snapshot and still found table t%d at revision %d (the channel's snapshot had %d): the channel was closed before the change became visible", c.ws.origin, c.ws.table, c.rev, c.ws.baseRev)
		} else {
			in.res.class("observer_saw_close")
		}
	}
	for _, c := range iclose {
		if !c.init && !c.iw.regSince {
			in.violNoStop("C19", "init-early", "a concurrent waiter saw the channel from Initialized() of t%d closed, took a snapshot and found the table still uninitialized", c.iw.table)
		} else {
			in.res.class("observer_saw_init_close")
		}
	}
	// C02: the observed fingerprints must walk through the committed model
	// states in order - never a mixture of two states, never backwards
	for _, tup := range tuples {
		found := false
		for in.obsPos < len(in.modelTuples) {
			if eqU64(in.modelTuples[in.obsPos], tup) {
				found = true
				break
			}
			in.obsPos++
		}
		if !found {
			in.obsPos = len(in.modelTuples) - 1
			in.violNoStop("C02", "commit-visibility", "a concurrent reader saw a database state (table fingerprints %x) that is none of the committed states in order (%d committed states so far): a commit became visible partially", tup, len(in.modelTuples))
			return
		}
		in.res.class("observer_tuples")
	}
}

func eqU64(a, b []uint64) bool {
	if len(a) != len(b) {
		return false
	}
	for i := range a {
		if a[i] != b[i] {
			return false
		}
	}
	return true
}

// recordModelTuple appends the fingerprint tuple of the current committed
// model state (called at start and after every commit).
func (in *interp) recordModelTuple() {
	t := make([]uint64, len(in.cur.tables))
	for i, ts := range in.cur.tables {
		t[i] = modelDigest(ts)
	}
	in.modelTuples = append(in.modelTuples, t)
}

var _ = statedb.Revision(0)
