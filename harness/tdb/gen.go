//go:build verif

package tdb

import (
	"pgregory.net/rapid"

	"verifharness/vk"
)

// Profile: operation weights and feature switches of one property's generator.
type Profile struct {
	W        map[int]int // op kind -> weight
	GC       int         // percentage of cases that run with the graveyard worker
	TwoTxns  bool
	FewKeys  bool // draw primary keys from a very small pool (C08)
	NoWtxnNext bool // Next never gets an open WriteTxn (C02-B)
	Unlocked bool // allow writes aimed at tables the transaction does not hold
	MaxMin   int
	// Preambles: with probability 1/2 the case starts with one of these operation
	// lists (scenarios that make the interesting region reachable); the
	// generated operations follow. The whole list still shrinks as one value.
	Preambles [][]Op
	// PreambleOneIn: a preamble is used in one of this many cases (default 2)
	PreambleOneIn int
	// EmptyBegin: one Begin in four names no table at all
	EmptyBegin bool
}

var keyAlphabet = []byte{0x00, 0x01, 0x02, 'a', 0xff}

var idPool = [][]byte{{}, {0x00}, {0x01}, {'a'}, {'a', 0x00}, {'a', 0x01}, {0xff}, {0x00, 0x00}}

// deepIDs: a family of nested primary keys (a key that is a strict prefix of
// others which continue with the same byte into a deeper inner node) - deletes
// of the short key merge radix-tree nodes, later writes go below the merged node.
var deepIDs = [][]byte{{'a', 0x00}, {'a', 0x00, 0x01}, {'a', 0x00, 0x01, 0x02}, {'a', 0x00, 0x01, 0xff}, {'a', 0x00, 0x01, 0x00}, {'a', 0x00, 0x02}}

func genID(few bool) *rapid.Generator[[]byte] {
	if few {
		return rapid.SampledFrom(idPool[:4])
	}
	return rapid.OneOf(
		rapid.SampledFrom(idPool), rapid.SampledFrom(idPool),
		rapid.SliceOfN(rapid.SampledFrom(keyAlphabet), 0, 3),
		rapid.SampledFrom(deepIDs),
	)
}

func genKeyN(max int) *rapid.Generator[[]byte] {
	return rapid.SliceOfN(rapid.SampledFrom(keyAlphabet), 0, max)
}

var pfxBits = []uint16{0x0000, 0x8000, 0xa000, 0xa0a0, 0xa080, 0xffff}
var pfxLens = []int{0, 1, 3, 4, 8, 9, 12, 16}

var pfxPool = []P{{0xa000, 4}, {0xa000, 8}, {0x0000, 0}}

func genP() *rapid.Generator[P] {
	return rapid.OneOf(
		// a tiny pool so that many objects share one prefix (per-prefix object lists grow)
		rapid.SampledFrom(pfxPool),
		rapid.Custom(func(t *rapid.T) P {
			return P{Bits: rapid.SampledFrom(pfxBits).Draw(t, "bits"), Len: rapid.SampledFrom(pfxLens).Draw(t, "len")}.norm()
		}),
	)
}

func genQuery() *rapid.Generator[*Query] {
	return rapid.Custom(func(t *rapid.T) *Query {
		q := &Query{
			Idx:  rapid.SampledFrom([]int{idxID, idxID, idxU, idxTags, idxTags, idxLPM, idxLPM, idxULPM, idxRev}).Draw(t, "idx"),
			Kind: rapid.IntRange(qGet, qAll).Draw(t, "kind"),
		}
		switch q.Idx {
		case idxLPM:
			q.Pfx = genP().Draw(t, "pfx")
		case idxULPM:
			q.Key = rapid.OneOf(genKeyN(3), genKeyN(3), rapid.SampledFrom(deepIDs)).Draw(t, "key")
			q.Len = rapid.SampledFrom([]int{0, 4, 8, 12, 16, 24, 28, 32}).Draw(t, "len")
		case idxRev:
			q.Rev = uint64(rapid.IntRange(0, 30).Draw(t, "rev"))
			if q.Kind != qGet {
				q.Kind = qLowerBound
			}
		case idxU:
			q.Key = genKeyN(1).Draw(t, "key")
			if rapid.Bool().Draw(t, "comp") {
				q.Comp = true
				q.ID = genID(false).Draw(t, "id")
			}
		default:
			q.Key = rapid.OneOf(genKeyN(3), genKeyN(3), rapid.SampledFrom(deepIDs)).Draw(t, "key")
		}
		return q
	})
}

func genOp(p Profile, ntables int) *rapid.Generator[Op] {
	var kinds []int
	for k := 0; k < numOpKinds; k++ {
		for i := 0; i < p.W[k]; i++ {
			kinds = append(kinds, k)
		}
	}
	return rapid.Custom(func(t *rapid.T) Op {
		o := Op{K: rapid.SampledFrom(kinds).Draw(t, "k")}
		o.T = rapid.IntRange(0, ntables-1).Draw(t, "t")
		o.P = rapid.IntRange(0, 999).Draw(t, "p")
		switch o.K {
		case opBegin:
			o.Ts = rapid.SliceOfN(rapid.IntRange(0, ntables-1), 1, 4).Draw(t, "ts")
			if p.EmptyBegin && rapid.IntRange(0, 3).Draw(t, "noTables") == 0 {
				o.Ts = []int{}
			}
		case opInsert, opInsertWatch, opModify, opDelete, opCAS, opCAD, opWriteFinished:
			o.W = rapid.IntRange(0, 1).Draw(t, "w")
			o.ID = genID(p.FewKeys).Draw(t, "id")
			if o.K != opDelete && o.K != opCAD {
				o.Us = rapid.SliceOfN(genKeyN(1), 0, 2).Draw(t, "us")
				o.Tags = rapid.SliceOfN(genKeyN(2), 0, 3).Draw(t, "tags")
				o.Pfx = rapid.SliceOfN(genP(), 0, 2).Draw(t, "pfx")
				if rapid.IntRange(0, 7).Draw(t, "dupKeys") == 0 {
					// an indexer that yields the same key twice
					if len(o.Tags) > 0 {
						o.Tags = append(o.Tags, o.Tags[0])
					}
					if len(o.Pfx) > 0 {
						o.Pfx = append(o.Pfx, o.Pfx[0])
					}
				}
				o.Val = rapid.IntRange(0, 9).Draw(t, "val")
			}
			o.G = rapid.IntRange(0, 15).Draw(t, "g")
			if !p.Unlocked && o.G%4 == 3 && (o.K == opInsert || o.K == opModify || o.K == opDelete || o.K == opInsertWatch) {
				o.G--
			}
		case opBulkInsert, opBulkDelete:
			o.W = rapid.IntRange(0, 1).Draw(t, "w")
			o.H = rapid.SampledFrom([]int{0, 0, 1, 0x60, 0xd0}).Draw(t, "from")
			o.N = rapid.SampledFrom([]int{3, 5, 17, 18, 48, 49, 50, 70}).Draw(t, "count")
			if o.K == opBulkInsert {
				o.Tags = rapid.SliceOfN(genKeyN(2), 0, 2).Draw(t, "tags")
				o.Pfx = rapid.SliceOfN(genP(), 0, 1).Draw(t, "pfx")
				o.Val = rapid.IntRange(0, 9).Draw(t, "val")
			}
		case opDeleteAll, opCommit, opAbort:
			o.W = rapid.IntRange(0, 1).Draw(t, "w")
		case opQuery:
			o.Q = genQuery().Draw(t, "q")
			o.H = rapid.IntRange(-2, 5).Draw(t, "h")
		case opWatch:
			o.Q = genQuery().Draw(t, "q")
		case opChanges:
			o.W = rapid.IntRange(0, 1).Draw(t, "w")
		case opNext:
			o.H = rapid.IntRange(0, 3).Draw(t, "h")
			o.W = rapid.IntRange(0, 5).Draw(t, "w")
			o.G = rapid.IntRange(0, 2).Draw(t, "txnChoice")
			if p.NoWtxnNext && o.G == 2 {
				o.G = 0
			}
			o.N = rapid.IntRange(-1, 3).Draw(t, "consume")
		case opCloseIter:
			o.H = rapid.IntRange(0, 3).Draw(t, "h")
		case opGC:
			o.N = rapid.IntRange(0, 2).Draw(t, "mode")
		case opRegInit:
			o.N = rapid.IntRange(0, 3).Draw(t, "name")
		case opMarkDone:
			o.H = rapid.IntRange(0, 5).Draw(t, "h")
		case opInitWatch:
			o.H = rapid.IntRange(0, 5).Draw(t, "h")
		}
		return o
	})
}

func genCase(t *rapid.T, p Profile) Case {
	c := Case{MaxTxns: 1}
	n := rapid.IntRange(1, 3).Draw(t, "ntables")
	for i := 0; i < n; i++ {
		mask := 15
		if rapid.Bool().Draw(t, "anyMask") {
			mask = rapid.IntRange(0, 15).Draw(t, "mask")
		}
		c.Tables = append(c.Tables, TableSpec{Mask: mask << 1})
	}
	if p.TwoTxns && rapid.Bool().Draw(t, "twoTxns") {
		c.MaxTxns = 2
	}
	c.EmptyBegin = p.EmptyBegin
	if p.GC > 0 && rapid.IntRange(0, 99).Draw(t, "gc") < p.GC {
		c.GC = true
	}
	mm := p.MaxMin
	if mm == 0 {
		mm = 25
	}
	c.Ops = vk.Ops(t, genOp(p, n), mm, "ops")
	oneIn := p.PreambleOneIn
	if oneIn == 0 {
		oneIn = 2
	}
	if len(p.Preambles) > 0 && rapid.IntRange(0, oneIn-1).Draw(t, "preamble") == 0 {
		pre := p.Preambles[rapid.IntRange(0, len(p.Preambles)-1).Draw(t, "whichPreamble")]
		c.Ops = append(append([]Op{}, pre...), c.Ops...)
	}
	return c
}

func baseWeights() map[int]int {
	return map[int]int{opBegin: 2, opInsert: 7, opInsertWatch: 1, opModify: 2, opDelete: 3, opDeleteAll: 1, opCAS: 2, opCAD: 2, opCommit: 5, opAbort: 2, opBulkInsert: 1, opBulkDelete: 1, opNewTable: 1}
}

func with(w map[int]int, extra map[int]int) map[int]int {
	out := map[int]int{}
	for k, v := range w {
		out[k] = v
	}
	for k, v := range extra {
		out[k] = v
	}
	return out
}
