//go:build verif

package tdb

import (
	"testing"

	"pgregory.net/rapid"

	"verifharness/vk"
)

func dbTest(t *testing.T, prop, test, rule string, p Profile, opt Options) {
	var c Case
	if vk.Replaying() {
		if vk.Replay(prop, test, &c) {
			if res := Run(t, c, prop, opt); res.err != nil {
				vk.Fail(t, prop, test, c, res.sig, "%v", res.err)
			}
		}
		return
	}
	rec := vk.NewRecorder(prop, test, rule)
	defer rec.Flush()
	rapid.Check(t, func(rt *rapid.T) {
		c := genCase(rt, p)
		res := Run(t, c, prop, opt)
		classes := res.classList()
		if res.foreign != "" {
			classes = append(classes, "foreign_divergence_"+res.foreign)
		}
		rec.Case(c, res.nontrivial && res.foreign == "", classes...)
		if res.err != nil {
			vk.Fail(rt, prop, test, c, res.sig, "%v", res.err)
		}
	})
}

// crowdedPrefixPreamble: many objects under ONE prefix of the non-unique LPM
// index (the per-prefix object list grows to 7), inserted so that each new
// object lands in the middle of the list, with snapshots retained in between.
var crowdedPrefixPreamble = func() []Op {
	hot := []P{{Bits: 0xa000, Len: 4}}
	ins := func(id ...byte) Op { return Op{K: opInsert, ID: id, Pfx: hot, P: 1} }
	return []Op{
		ins(), ins(0xff), ins('a', 0x01), ins('a', 0x00), {K: opCommit}, {K: opSnapshot},
		ins('a'), {K: opCommit}, {K: opSnapshot},
		ins(0x01), {K: opCommit}, {K: opSnapshot},
		ins(0x00, 0x00),
	}
}()

var profC01 = Profile{PreambleOneIn: 5, Preambles: [][]Op{crowdedPrefixPreamble}, W: with(baseWeights(), map[int]int{opSnapshot: 5, opQuery: 5, opChanges: 1, opNext: 2, opGC: 1, opCloseIter: 1}), GC: 25, TwoTxns: true, Unlocked: true}

const ruleC01 = "histories of up to ~50 operations over 1-3 tables with random index sets (unique multi-key, non-unique multi-key, non-unique LPM, unique LPM): write transactions (one or two open at once) with inserts, key-changing updates, deletes, CAS/CAD, commits and aborts, change iterators and (25% of cases) the graveyard worker; up to 6 snapshots are retained (db.ReadTxn() at arbitrary points), a full audit (every query kind for every alphabet key on every index, counts, revision, initialization) is recorded when each is taken, sampled re-audits follow every later operation and a full re-audit ends the case; query iterators created inside write transactions and on snapshots are held unconsumed across later writes, Commit/Abort or until the end of the case and must then yield the answer of the moment they were created. Non-trivial = a retained snapshot was re-audited after a later committed write; distinct by case encoding."

func TestC01Snapshots(t *testing.T) {
	dbTest(t, "C01", "TestC01Snapshots", ruleC01, profC01, Options{})
}

// graveyardCyclePreamble: a key is deleted while an iterator tracks the table,
// the iterator is closed, the key re-inserted, a new iterator opened and the
// key deleted again - the write operations go through every graveyard path.
var graveyardCyclePreamble = []Op{
	{K: opChanges}, {K: opCommit},
	{K: opInsert, ID: []byte{'a'}}, {K: opCommit},
	{K: opDelete, ID: []byte{'a'}}, {K: opCommit},
	{K: opCloseIter},
	{K: opInsert, ID: []byte{'a'}}, {K: opCommit},
	{K: opChanges}, {K: opCommit},
	{K: opDelete, ID: []byte{'a'}}, {K: opCommit},
}

var profC03 = Profile{Preambles: [][]Op{graveyardCyclePreamble}, W: with(baseWeights(), map[int]int{opWriteFinished: 2, opCAS: 4, opCAD: 3, opQuery: 1, opChanges: 2, opCloseIter: 2, opNext: 1}), Unlocked: true, TwoTxns: true}

const ruleC03 = "sequences of Insert/InsertWatch/Modify/Delete/DeleteAll/CompareAndSwap/CompareAndDelete (guards: current, stale, another object's, never issued; keys incl. empty and binary) grouped into committed and aborted transactions, plus writes aimed at a table the transaction does not hold and writes through a finished transaction, with change iterators being created and closed in between (deleted objects move through the graveyard); every return triple and error is compared with a map model, rejected operations must leave the transaction's view unchanged, reads in the transaction see its writes, commits/aborts are compared with the model. Non-trivial = a transaction of >=3 operations containing a rejected compare-and-* after a successful write; distinct by case encoding."

func TestC03WriteOps(t *testing.T) {
	dbTest(t, "C03", "TestC03WriteOps", ruleC03, profC03, Options{})
}

var profC04 = Profile{W: with(baseWeights(), map[int]int{opInsert: 9, opModify: 3, opQuery: 10, opSnapshot: 1}), TwoTxns: false}

const ruleC04 = "histories emphasising key-changing updates (secondary key sets that grow, shrink, become empty; empty and 0x00/0x01/0x02/0xff keys) and deletes, followed by Get/List/Prefix/LowerBound/All/by-revision queries with hostile keys on primary, unique, non-unique, non-unique LPM and unique LPM indexes, on fresh and retained snapshots and inside the writing transaction, typed and through AnyTable strings; after every commit the whole table is audited (every alphabet key, every query kind, every index). Oracle: exact answer sequences computed from the model's object set (validity predicate for multi-key Prefix/LowerBound on non-unique indexes). Non-trivial = an object changed its secondary key set or an object holding an empty/escape-byte key was deleted, and a later query ran; distinct by case encoding."

func TestC04Indexes(t *testing.T) {
	dbTest(t, "C04", "TestC04Indexes", ruleC04, profC04, Options{FullAuditEvery: true})
}

var profC09 = Profile{W: with(baseWeights(), map[int]int{opCAS: 4, opCAD: 3, opSnapshot: 1, opChanges: 1, opNext: 2}), TwoTxns: true, Unlocked: true}

const ruleC09 = "the C03 operation mix on 1-3 tables with one or two open transactions: after every operation the table revision inside the transaction must equal the model (strictly increased by each successful write, unchanged by no-op deletes, rejected compare-and-* and aborts) and the written object must carry exactly that revision; every committed state is checked for pairwise distinct revisions, ascending by-revision listing with exactly the live objects, and object revisions not above the table revision. Non-trivial = a history with a rejected guard operation after a successful write and an aborted transaction with successful writes; distinct by case encoding."

func TestC09Revisions(t *testing.T) {
	dbTest(t, "C09", "TestC09Revisions", ruleC09, profC09, Options{})
}

// mergePreambles: a primary key K that is a strict prefix of other keys which
// all continue with the same byte (K's radix node has a leaf and exactly one
// inner child). Channels are taken for queries that resolve below K, then ONE
// transaction deletes K (the child is merged upwards) and writes below it.
// P=1 keeps the sampled in-transaction audits (which would iterate the
// transaction's tree) out of these transactions.
func mergePreamble(second Op, abortFirst bool) []Op {
	return mergePreambleAt(second, abortFirst, false)
}

// demotionPreamble: n objects below the key "a" (a node16/48/256 at its
// lower size limit for n = 5, 17, 49), channels for the prefix and for a missing
// key directly below the node, then one of the objects is deleted (the node is
// demoted to the next smaller kind).
func demotionPreamble(n int) []Op {
	return []Op{
		{K: opBulkInsert, H: 0, N: n}, {K: opCommit},
		{K: opWatch, Q: &Query{Idx: idxID, Kind: qPrefix, Key: []byte{'a'}}},
		{K: opWatch, Q: &Query{Idx: idxID, Kind: qGet, Key: []byte{'a', 0xf0}}},
		{K: opWatch, Q: &Query{Idx: idxID, Kind: qLowerBound, Key: []byte{'a'}}},
		{K: opDelete, ID: []byte{'a', 0x01}, P: 1}, {K: opCommit},
	}
}

// atRoot: no other key beside the family, so the deleted key sits at the root
// of the index tree.
func mergePreambleAt(second Op, abortFirst bool, atRoot bool) []Op {
	k, below := []byte{'a', 0x00}, []byte{'a', 0x00, 0x01}
	ops := []Op{
		{K: opInsert, ID: []byte{0xff}, P: 1}, {K: opInsert, ID: k, P: 1},
		{K: opInsert, ID: []byte{'a', 0x00, 0x01, 0x02}, P: 1}, {K: opInsert, ID: []byte{'a', 0x00, 0x01, 0xff}, P: 1},
		{K: opCommit},
		{K: opWatch, Q: &Query{Idx: idxID, Kind: qGet, Key: second.ID}},
		{K: opWatch, Q: &Query{Idx: idxID, Kind: qPrefix, Key: below}},
		{K: opWatch, Q: &Query{Idx: idxID, Kind: qLowerBound, Key: below}},
	}
	if atRoot {
		ops = ops[1:]
	}
	txn := []Op{{K: opDelete, ID: k, P: 1}, second}
	if abortFirst {
		ops = append(append(ops, txn...), Op{K: opAbort})
	}
	return append(append(ops, txn...), Op{K: opCommit})
}

// splitPreamble: a deletion leaves an inner radix node that holds a value but
// has no children; channels are taken for prefixes ending inside its compressed
// prefix; then a key that splits that prefix is inserted.
var splitPreamble = []Op{
	{K: opInsert, ID: []byte{0xff}, P: 1}, {K: opInsert, ID: []byte{'a', 0x00, 0x01}, P: 1}, {K: opInsert, ID: []byte{'a', 0x00, 0x01, 0x02}, P: 1}, {K: opCommit},
	{K: opDelete, ID: []byte{'a', 0x00, 0x01, 0x02}, P: 1}, {K: opCommit},
	{K: opWatch, Q: &Query{Idx: idxID, Kind: qPrefix, Key: []byte{'a'}}},
	{K: opWatch, Q: &Query{Idx: idxID, Kind: qPrefix, Key: []byte{'a', 0x00}}},
	{K: opWatch, Q: &Query{Idx: idxID, Kind: qGet, Key: []byte{'a', 0x00}}},
	{K: opInsert, ID: []byte{'a', 0x00, 0x02}, P: 1}, {K: opCommit},
}

// C05 in the E-DB interpreter: transactions on disjoint tables interleaved
// with initializer completions and table registrations; a Commit must leave
// the committed state of every table it did not target alone.
var profC05 = Profile{W: with(baseWeights(), map[int]int{opBegin: 4, opCommit: 7, opRegInit: 2, opMarkDone: 3, opNewTable: 2, opSnapshot: 1}), TwoTxns: true, EmptyBegin: true, PreambleOneIn: 6, Preambles: [][]Op{multiInitPreamble}}

const ruleC05DB = "histories of 1-3 tables (plus tables registered in the middle of the case) with one or two open write transactions on overlapping, disjoint or empty table lists, initializers registered and completed, commits and aborts in any order; after every Commit the committed state of every table the transaction did not hold must equal the model (no committed write lost or overwritten by a stale copy), and a new transaction sees everything committed earlier. Non-trivial = two transactions were open at once and one of them committed writes while the other was open; distinct by case encoding."

func TestC05LostWrites(t *testing.T) {
	dbTest(t, "C05", "TestC05LostWrites", ruleC05DB, profC05, Options{})
}

var profC06 = Profile{W: with(baseWeights(), map[int]int{opWatch: 10, opInsertWatch: 3, opAbort: 3}), TwoTxns: true, PreambleOneIn: 3,
	Preambles: [][]Op{
		mergePreamble(Op{K: opInsert, ID: []byte{'a', 0x00, 0x01, 0x00}, P: 1}, false),
		mergePreamble(Op{K: opInsert, ID: []byte{'a', 0x00, 0x01, 0x00}, P: 1}, true),
		mergePreamble(Op{K: opDelete, ID: []byte{'a', 0x00, 0x01, 0x02}, P: 1}, false),
		mergePreamble(Op{K: opInsert, ID: []byte{'a', 0x00, 0x01}, P: 1}, false),
		splitPreamble,
		mergePreambleAt(Op{K: opInsert, ID: []byte{'a', 0x00, 0x01, 0x00}, P: 1}, false, true),
		mergePreambleAt(Op{K: opDelete, ID: []byte{'a', 0x00, 0x01, 0x02}, P: 1}, false, true),
		demotionPreamble(5), demotionPreamble(17), demotionPreamble(49),
	}}

const ruleC06 = "histories in which watch channels are taken on fresh snapshots (GetWatch/ListWatch/PrefixWatch/LowerBoundWatch/AllWatch on primary, unique, non-unique and both LPM indexes; InsertWatch) and retained (<=48) across later committed and aborted transactions; checked: open when handed out, closed when the Commit that changes the query's model answer returns, unchanged across aborts, and - at every hook point inside WriteTxn/Commit/Abort and every operation boundary - a channel found closed implies a fresh snapshot with a newer table revision. Non-trivial = a retained channel's answer was changed by a later commit and another retained channel survived an abort that had written to its table; distinct by case encoding."

func TestC06Watches(t *testing.T) {
	dbTest(t, "C06", "TestC06Watches", ruleC06, profC06, Options{})
}

var profC07 = Profile{W: with(baseWeights(), map[int]int{opDelete: 5, opChanges: 3, opNext: 9, opCloseIter: 1, opGC: 5, opSnapshot: 2}), GC: 60, Preambles: [][]Op{gcPreamble, freshIterPreamble, lagPreamble}, TwoTxns: true, FewKeys: false}

const ruleC07 = "histories with up to 4 change iterators created at arbitrary points (also inside transactions that already wrote), Next called with a monotone choice of fresh ReadTxn, retained snapshot or an open WriteTxn (holding uncommitted writes on the observed table or not), consuming k<n or all changes, Close, and (60% of cases) graveyard collection rounds (scan, park, release) in between; checked: strictly increasing revisions, every delivered change is an object version / deletion committed in the snapshot passed, after full consumption the replayed deliveries equal that snapshot and every deletion since the iterator's creation was delivered, an open watch comes with no changes and closes exactly at the next commit that changes the table. Non-trivial = an iterator that was delivered a deletion and had a partial consumption or a collector round in between, or a Next with a WriteTxn holding uncommitted writes; distinct by case encoding."

func TestC07Changes(t *testing.T) {
	dbTest(t, "C07", "TestC07Changes", ruleC07, profC07, Options{})
}

// gcPreamble: objects exist, an iterator is registered, deletions are committed
// and delivered - the collector now has work when it is triggered.
var gcPreamble = []Op{
	{K: opInsert, ID: []byte{}}, {K: opInsert, ID: []byte{0x00}}, {K: opInsert, ID: []byte{0x01}}, {K: opCommit},
	{K: opChanges}, {K: opCommit},
	{K: opDelete, ID: []byte{}}, {K: opDelete, ID: []byte{0x00}}, {K: opCommit},
	{K: opNext, N: 1}, {K: opGC, N: 0},
}

// freshIterPreamble: the iterator is created on the pristine table (revision
// 0), then an object is inserted and deleted and a collector round runs before
// the iterator is asked again.
var freshIterPreamble = []Op{
	{K: opChanges}, {K: opCommit},
	{K: opInsert, ID: []byte{}}, {K: opCommit},
	{K: opDelete, ID: []byte{}}, {K: opCommit},
	{K: opGC, N: 2},
}

// lagPreamble: two iterators, one consumes a deletion (which triggers the
// collector), the other lags.
var lagPreamble = []Op{
	{K: opInsert, ID: []byte{}}, {K: opInsert, ID: []byte{0x00}}, {K: opCommit},
	{K: opChanges}, {K: opChanges}, {K: opCommit},
	{K: opDelete, ID: []byte{}}, {K: opCommit},
	{K: opNext, H: 0, N: -1}, {K: opGC, N: 2},
}

// bigGraveyardPreamble: hundreds of objects are deleted in one transaction
// while an iterator is registered; the iterator takes all of them in one
// batch (or is closed instead), which is the last trigger the collector gets.
func bigGraveyardPreamble(n int, closeIt bool) []Op {
	ops := []Op{
		{K: opChanges}, {K: opCommit},
		{K: opBulkInsert, N: n}, {K: opCommit},
		{K: opBulkDelete, N: n}, {K: opCommit},
	}
	if closeIt {
		return append(ops, Op{K: opCloseIter})
	}
	return append(ops, Op{K: opNext, H: 0, N: -1})
}

// c08Preambles: the big graveyards are expensive (about 50 ms a case) and
// make up about 3% of the cases.
func c08Preambles() [][]Op {
	var ps [][]Op
	for i := 0; i < 16; i++ {
		ps = append(ps, gcPreamble, freshIterPreamble, lagPreamble)
	}
	return append(ps, bigGraveyardPreamble(300, false), bigGraveyardPreamble(600, false), bigGraveyardPreamble(1100, true))
}

var profC08 = Profile{Preambles: c08Preambles(), W: map[int]int{opBegin: 1, opInsert: 6, opModify: 1, opCAS: 2, opCAD: 2, opDelete: 7, opDeleteAll: 1, opCommit: 6, opAbort: 1, opChanges: 3, opNext: 6, opCloseIter: 2, opGC: 8}, GC: 100, FewKeys: true}

const ruleC08 = "histories over few keys (delete / re-insert / re-delete, also through Modify and rejected or successful compare-and-* operations) with 0-4 change iterators at arbitrary progress, Close, virtual-time advances, explicit collector triggers and a gate that parks the collector between its lock-free scan and its write transaction while further operations run; the graveyard worker runs inside a synctest bubble. Checked: the number of retained deletions is never below the deletions not yet handed to every open iterator and never above the deletions made while an iterator was registered (checked after every commit, abort and collector operation), lagging iterators still converge (C07 oracle), nothing is retained without iterators, and after all iterators caught up and 6 collection intervals passed the retained count is 0. Non-trivial = a collector round was released while iterators were open and deliveries happened; distinct by case encoding."

func TestC08Graveyard(t *testing.T) {
	dbTest(t, "C08", "TestC08Graveyard", ruleC08, profC08, Options{})
}

// multiInitPreamble: ONE transaction completes the last initializer of two
// tables while channels from Initialized() are retained for both.
var multiInitPreamble = []Op{
	{K: opBegin, Ts: []int{0, 1}}, {K: opRegInit, T: 0}, {K: opRegInit, T: 1}, {K: opCommit},
	{K: opInitWatch, T: 0}, {K: opInitWatch, T: 1},
	{K: opBegin, Ts: []int{1, 0}}, {K: opMarkDone, H: 0}, {K: opMarkDone, H: 1}, {K: opCommit},
}

var profC19 = Profile{PreambleOneIn: 4, Preambles: [][]Op{multiInitPreamble}, W: map[int]int{opBegin: 2, opInsert: 2, opDelete: 1, opCommit: 6, opAbort: 4, opRegInit: 6, opMarkDone: 7, opInitWatch: 5, opSnapshot: 1}, TwoTxns: true, MaxMin: 15}

const ruleC19 = "orders of registering and completing up to 4 initializer names per table across committed and aborted transactions mixed with ordinary writes on 1-3 tables; a mark made in an aborted transaction may be repeated later. Checked on every snapshot and inside every transaction: Initialized/PendingInitializers equal the model (committed registrations minus committed marks plus the transaction's own); channels obtained while uninitialized stay open across aborts and incomplete commits, are closed when the completing Commit returns, and whenever found closed (at every hook point in Commit) a fresh snapshot reports the table initialized. Non-trivial = >=2 registrations with an aborted registration or aborted mark in between; distinct by case encoding."

func TestC19Init(t *testing.T) {
	dbTest(t, "C19", "TestC19Init", ruleC19, profC19, Options{})
}

const ruleC10G = "the C08 histories (delete / re-insert / re-delete over few keys, iterators created, consumed and closed, the real graveyard worker parked between its lock-free scan and its write transaction while scanned keys are re-inserted, then released), judged for C10: every write transaction, iterator Close and collector round must be granted - a case that does not finish within 30 s of real time (virtual time cannot advance while a goroutine waits for a table lock) is a deadlock or a leaked table lock. Non-trivial = a collector round was released while iterators were open; distinct by case encoding."

// TestC10Graveyard: creating/closing iterators and graveyard collection never
// deadlock and never leave a table locked.
func TestC10Graveyard(t *testing.T) {
	p := profC08
	dbTest(t, "C10", HangTest, ruleC10G, p, Options{})
}
