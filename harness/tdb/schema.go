//go:build verif

// Package tdb is the model-based interpreter for the statedb API (E-DB). It
// decides C01-C04, C06-C09 and C19; each test activates the assertions of one
// property and treats the others' as "foreign divergence".
package tdb

import (
	"bytes"
	"encoding/hex"
	"fmt"
	"iter"
	"strconv"
	"strings"

	"github.com/cilium/statedb"
	"github.com/cilium/statedb/index"
)

// P is an LPM prefix in a 16-bit universe (non-unique LPM index).
type P struct {
	Bits uint16 `json:"b"`
	Len  int    `json:"l"`
}

func (p P) norm() P {
	l := p.Len
	if l < 0 {
		l = 0
	}
	if l > 16 {
		l = 16
	}
	if l == 0 {
		return P{0, 0}
	}
	return P{p.Bits & (0xffff << (16 - l)), l}
}

func (p P) data() []byte { return []byte{byte(p.Bits >> 8), byte(p.Bits)} }

func (p P) covers(q P) bool {
	return p.Len <= q.Len && q.norm().Bits&maskBits(p.Len) == p.Bits
}

func maskBits(l int) uint16 {
	if l == 0 {
		return 0
	}
	return 0xffff << (16 - l)
}

func lessP(a, b P) bool {
	if a.Bits != b.Bits {
		return a.Bits < b.Bits
	}
	return a.Len < b.Len
}

// Obj is the object stored in every test table. It is never mutated after
// insertion; every write creates a fresh *Obj with a unique serial N.
type Obj struct {
	N    int
	ID   []byte
	Us   [][]byte // components of the unique secondary keys: key = x ++ ID ++ len(ID)
	Tags [][]byte // non-unique secondary keys (distinct, non-nil, may be empty)
	Pfx  []P      // prefixes for the non-unique LPM index
	Val  int
}

func (o *Obj) TableHeader() []string { return []string{"N", "ID", "Val"} }
func (o *Obj) TableRow() []string {
	return []string{strconv.Itoa(o.N), hex.EncodeToString(o.ID), strconv.Itoa(o.Val)}
}

func (o *Obj) String() string {
	if o == nil {
		return "<nil>"
	}
	return fmt.Sprintf("#%d(id=%x us=%x tags=%x pfx=%v val=%d)", o.N, o.ID, o.Us, o.Tags, o.Pfx, o.Val)
}

func uKey(x, id []byte) []byte {
	k := make([]byte, 0, len(x)+len(id)+1)
	k = append(k, x...)
	k = append(k, id...)
	return append(k, byte(len(id)))
}

// uniquePfx derives the unique-LPM prefix of an object injectively from its
// primary key: the key bytes, zero padded to 3 bytes, prefix length 8*len.
const ulpmBytes = 4 // width of the unique LPM universe: primary keys have at most 4 bytes

func uniquePfx(id []byte) ([]byte, uint16) {
	if len(id) > ulpmBytes {
		panic("harness: primary key longer than the unique LPM universe")
	}
	d := make([]byte, ulpmBytes)
	copy(d, id)
	return d, uint16(8 * len(id))
}

func fromHex(s string) (index.Key, error) {
	b, err := hex.DecodeString(s)
	if err != nil {
		return nil, err
	}
	if b == nil {
		b = []byte{}
	}
	return b, nil
}

const (
	idxID = iota
	idxU
	idxTags
	idxLPM
	idxULPM
	idxRev
	numIdx
)

var idxNames = []string{"id", "u", "tags", "lpm", "ulpm", "rev"}

var (
	idIndex = statedb.Index[*Obj, []byte]{
		Name:       "id",
		FromObject: func(o *Obj) index.KeySet { return index.NewKeySet(o.ID) },
		FromKey:    func(k []byte) index.Key { return k },
		FromString: fromHex,
		Unique:     true,
	}
	uIndex = statedb.Index[*Obj, []byte]{
		Name: "u",
		FromObject: func(o *Obj) index.KeySet {
			keys := make([]index.Key, 0, len(o.Us))
			for _, x := range o.Us {
				keys = append(keys, uKey(x, o.ID))
			}
			return index.NewKeySet(keys...)
		},
		FromKey:    func(k []byte) index.Key { return k },
		FromString: fromHex,
		Unique:     true,
	}
	tagIndex = statedb.Index[*Obj, []byte]{
		Name: "tags",
		FromObject: func(o *Obj) index.KeySet {
			keys := make([]index.Key, 0, len(o.Tags))
			for _, x := range o.Tags {
				keys = append(keys, x)
			}
			return index.NewKeySet(keys...)
		},
		FromKey:    func(k []byte) index.Key { return k },
		FromString: fromHex,
		Unique:     false,
	}
	lpmIndex = statedb.LPMIndex[*Obj]{
		Name: "lpm",
		FromObject: func(o *Obj) iter.Seq2[[]byte, statedb.PrefixLen] {
			return func(yield func([]byte, statedb.PrefixLen) bool) {
				for _, p := range o.Pfx {
					if !yield(p.data(), statedb.PrefixLen(p.Len)) {
						return
					}
				}
			}
		},
		FromString: func(s string) ([]byte, statedb.PrefixLen, error) {
			d, l, ok := strings.Cut(s, "/")
			if !ok {
				return nil, 0, fmt.Errorf("bad prefix %q", s)
			}
			b, err := hex.DecodeString(d)
			if err != nil {
				return nil, 0, err
			}
			n, err := strconv.Atoi(l)
			return b, statedb.PrefixLen(n), err
		},
		Unique: false,
	}
	ulpmIndex = statedb.LPMIndex[*Obj]{
		Name: "ulpm",
		FromObject: func(o *Obj) iter.Seq2[[]byte, statedb.PrefixLen] {
			return func(yield func([]byte, statedb.PrefixLen) bool) {
				d, l := uniquePfx(o.ID)
				yield(d, l)
			}
		},
		FromString: func(s string) ([]byte, statedb.PrefixLen, error) {
			d, l, ok := strings.Cut(s, "/")
			if !ok {
				return nil, 0, fmt.Errorf("bad prefix %q", s)
			}
			b, err := hex.DecodeString(d)
			if err != nil {
				return nil, 0, err
			}
			n, err := strconv.Atoi(l)
			return b, statedb.PrefixLen(n), err
		},
		Unique: true,
	}
)

// Query is a plain-data query description.
type Query struct {
	Idx  int    `json:"i"`           // idxID..idxRev
	Kind int    `json:"k"`           // qGet..qAll
	Key  []byte `json:"key,omitempty"` // raw key / prefix / bound for part indexes; up to 4 data bytes for ulpm
	ID   []byte `json:"id,omitempty"`  // with Comp: builds a composite "u" key Key ++ ID ++ len(ID)
	Comp bool   `json:"c,omitempty"`
	Pfx  P      `json:"p,omitempty"` // lpm query prefix
	Len  int    `json:"l,omitempty"` // ulpm prefix length in bits
	Rev  uint64 `json:"r,omitempty"` // revision index bound
}

const (
	qGet = iota
	qList
	qPrefix
	qLowerBound
	qAll
	numQKinds
)

var qNames = []string{"Get", "List", "Prefix", "LowerBound", "All"}

func (q Query) String() string {
	switch q.Idx {
	case idxLPM:
		return fmt.Sprintf("%s(lpm %04x/%d)", qNames[q.Kind], q.Pfx.Bits, q.Pfx.Len)
	case idxULPM:
		return fmt.Sprintf("%s(ulpm %x/%d)", qNames[q.Kind], q.Key, q.Len)
	case idxRev:
		return fmt.Sprintf("%s(rev %d)", qNames[q.Kind], q.Rev)
	}
	return fmt.Sprintf("%s(%s %x)", qNames[q.Kind], idxNames[q.Idx], q.rawKey())
}

func (q Query) rawKey() []byte {
	k := q.Key
	if k == nil {
		k = []byte{}
	}
	if q.Idx == idxU && q.Comp {
		id := q.ID
		if id == nil {
			id = []byte{}
		}
		return uKey(k, id)
	}
	return k
}

func (q Query) ulpmData() ([]byte, int) {
	d := make([]byte, ulpmBytes)
	copy(d, q.Key)
	l := q.Len
	if l < 0 {
		l = 0
	}
	if l > 8*ulpmBytes {
		l = 8 * ulpmBytes
	}
	// mask
	for i := 0; i < ulpmBytes; i++ {
		switch {
		case l >= (i+1)*8:
		case l <= i*8:
			d[i] = 0
		default:
			d[i] &= 0xff << (8 - l%8)
		}
	}
	return d, l
}

// sdbQuery translates to a typed statedb query.
func (q Query) sdbQuery() statedb.Query[*Obj] {
	switch q.Idx {
	case idxID:
		return idIndex.Query(q.rawKey())
	case idxU:
		return uIndex.Query(q.rawKey())
	case idxTags:
		return tagIndex.Query(q.rawKey())
	case idxLPM:
		p := q.Pfx.norm()
		return lpmIndex.Query(p.data(), statedb.PrefixLen(p.Len))
	case idxULPM:
		d, l := q.ulpmData()
		return ulpmIndex.Query(d, statedb.PrefixLen(l))
	case idxRev:
		return statedb.ByRevision[*Obj](q.Rev)
	}
	panic("bad index")
}

// stringForm returns the AnyTable string query (index name, key string).
func (q Query) stringForm() (string, string) {
	switch q.Idx {
	case idxLPM:
		p := q.Pfx.norm()
		return "lpm", fmt.Sprintf("%x/%d", p.data(), p.Len)
	case idxULPM:
		d, l := q.ulpmData()
		return "ulpm", fmt.Sprintf("%x/%d", d, l)
	}
	return idxNames[q.Idx], hex.EncodeToString(q.rawKey())
}

// TableSpec: which secondary indexes a table has (bit i = index i present).
type TableSpec struct {
	Mask int `json:"mask"`
}

func (s TableSpec) has(idx int) bool {
	switch idx {
	case idxID, idxRev:
		return true
	}
	return s.Mask&(1<<uint(idx)) != 0
}

func newTable(db *statedb.DB, name string, spec TableSpec) (statedb.RWTable[*Obj], error) {
	var sec []statedb.Indexer[*Obj]
	if spec.has(idxU) {
		sec = append(sec, uIndex)
	}
	if spec.has(idxTags) {
		sec = append(sec, tagIndex)
	}
	if spec.has(idxLPM) {
		sec = append(sec, lpmIndex)
	}
	if spec.has(idxULPM) {
		sec = append(sec, ulpmIndex)
	}
	return statedb.NewTable[*Obj](db, name, idIndex, sec...)
}

func cloneBytes(b []byte) []byte {
	if b == nil {
		return []byte{}
	}
	return bytes.Clone(b)
}
