//go:build verif

package tdb

import (
	"bytes"
	"fmt"
	"sort"
)

type item struct {
	n   int
	rev uint64
}

func (i item) String() string { return fmt.Sprintf("#%d@%d", i.n, i.rev) }

type mObj struct {
	o   *Obj
	rev uint64
}

// tState is the model of one table (an immutable value once published in a
// dbState: writers copy before modifying).
type tState struct {
	spec    TableSpec
	objs    map[string]mObj // by primary key
	rev     uint64
	pending []string // pending initializers (committed or, inside a txn, the txn's view)
	// dels: for every primary key that is currently absent, its last deletion
	// (object serial and deletion revision) and whether a change iterator was
	// registered when it was deleted (then it went to the graveyard).
	dels map[string]delInfo
}

type delInfo struct {
	it      item
	tracked bool
}

func (t *tState) clone() *tState {
	c := &tState{spec: t.spec, rev: t.rev, objs: make(map[string]mObj, len(t.objs)), dels: make(map[string]delInfo, len(t.dels))}
	for k, v := range t.objs {
		c.objs[k] = v
	}
	for k, v := range t.dels {
		c.dels[k] = v
	}
	c.pending = append([]string(nil), t.pending...)
	return c
}

type dbState struct {
	tables []*tState
}

func (d *dbState) cloneShallow() *dbState {
	return &dbState{tables: append([]*tState(nil), d.tables...)}
}

type pair struct {
	key string
	pk  string
	it  item
}

// pairs returns the (index key, primary key, item) triples of a part index in
// specification order: index key, then primary key.
func (t *tState) pairs(idx int) []pair {
	var out []pair
	for pk, m := range t.objs {
		it := item{m.o.N, m.rev}
		switch idx {
		case idxID:
			out = append(out, pair{pk, pk, it})
		case idxU:
			seen := map[string]bool{}
			for _, x := range m.o.Us {
				if !seen[string(x)] {
					seen[string(x)] = true
					out = append(out, pair{string(uKey(x, m.o.ID)), pk, it})
				}
			}
		case idxTags:
			seen := map[string]bool{}
			for _, x := range m.o.Tags {
				if !seen[string(x)] {
					seen[string(x)] = true
					out = append(out, pair{string(x), pk, it})
				}
			}
		}
	}
	sort.Slice(out, func(i, j int) bool {
		if out[i].key != out[j].key {
			return out[i].key < out[j].key
		}
		return out[i].pk < out[j].pk
	})
	return out
}

type lpmEnt struct {
	bits uint32 // left aligned
	len  int
	objs []pair // by pk
}

func lessEnt(aBits uint32, aLen int, bBits uint32, bLen int) bool {
	if aBits != bBits {
		return aBits < bBits
	}
	return aLen < bLen
}

// lpmEntries returns the stored prefixes of an LPM index in (bits, len) order,
// each with its objects in primary-key order.
func (t *tState) lpmEntries(idx int) []lpmEnt {
	m := map[[2]uint32]*lpmEnt{}
	add := func(bits uint32, l int, p pair) {
		k := [2]uint32{bits, uint32(l)}
		e := m[k]
		if e == nil {
			e = &lpmEnt{bits: bits, len: l}
			m[k] = e
		}
		e.objs = append(e.objs, p)
	}
	for pk, mo := range t.objs {
		it := item{mo.o.N, mo.rev}
		if idx == idxLPM {
			seen := map[P]bool{}
			for _, p := range mo.o.Pfx {
				p = p.norm()
				if seen[p] {
					continue
				}
				seen[p] = true
				add(uint32(p.Bits)<<16, p.Len, pair{"", pk, it})
			}
		} else {
			d, l := uniquePfx(mo.o.ID)
			add(uint32(d[0])<<24|uint32(d[1])<<16|uint32(d[2])<<8|uint32(d[3]), int(l), pair{"", pk, it})
		}
	}
	out := make([]lpmEnt, 0, len(m))
	for _, e := range m {
		sort.Slice(e.objs, func(i, j int) bool { return e.objs[i].pk < e.objs[j].pk })
		out = append(out, *e)
	}
	sort.Slice(out, func(i, j int) bool { return lessEnt(out[i].bits, out[i].len, out[j].bits, out[j].len) })
	return out
}

func (q Query) lpmBits() (uint32, int, int) { // bits (left aligned 32), len, universe max
	if q.Idx == idxLPM {
		p := q.Pfx.norm()
		return uint32(p.Bits) << 16, p.Len, 16
	}
	d, l := q.ulpmData()
	return uint32(d[0])<<24 | uint32(d[1])<<16 | uint32(d[2])<<8 | uint32(d[3]), l, 8 * ulpmBytes
}

func mask32(bits uint32, l int) uint32 {
	if l == 0 {
		return 0
	}
	return bits & (^uint32(0) << (32 - l))
}

func entCovers(e lpmEnt, bits uint32, l int) bool { // e is an ancestor-or-equal of (bits,l)
	return e.len <= l && mask32(bits, e.len) == e.bits
}

// lpmStored reports whether the query prefix is stored in the index.
func (t *tState) lpmStored(q Query) bool {
	bits, l, _ := q.lpmBits()
	for _, e := range t.lpmEntries(q.Idx) {
		if e.bits == bits && e.len == l {
			return true
		}
	}
	return false
}

// expectation for one query.
type expect struct {
	exact bool
	items []item // exact: the precise answer sequence
	cands []pair // !exact: candidate pairs in specification order (validity predicate)
	once  bool   // !exact: every candidate object must appear exactly once (non-unique indexes)
}

// expected computes the oracle answer of a query on a table state.
func (t *tState) expected(q Query) expect {
	switch q.Idx {
	case idxRev:
		var out []item
		for _, m := range t.objs {
			if m.rev >= q.Rev {
				out = append(out, item{m.o.N, m.rev})
			}
		}
		sort.Slice(out, func(i, j int) bool { return out[i].rev < out[j].rev })
		if q.Kind == qGet {
			if len(out) > 0 && out[0].rev == q.Rev {
				return expect{exact: true, items: out[:1]}
			}
			return expect{exact: true}
		}
		return expect{exact: true, items: out}
	case idxLPM, idxULPM:
		ents := t.lpmEntries(q.Idx)
		bits, l, _ := q.lpmBits()
		var out []item
		switch q.Kind {
		case qGet, qList:
			best := -1
			for i, e := range ents {
				if entCovers(e, bits, l) && (best < 0 || e.len > ents[best].len) {
					best = i
				}
			}
			if best >= 0 {
				for _, p := range ents[best].objs {
					out = append(out, p.it)
				}
				if q.Kind == qGet {
					out = out[:1]
				}
			}
		case qPrefix:
			for _, e := range ents {
				if e.len >= l && mask32(e.bits, l) == bits {
					for _, p := range e.objs {
						out = append(out, p.it)
					}
				}
			}
		case qLowerBound:
			for _, e := range ents {
				if !lessEnt(e.bits, e.len, bits, l) {
					for _, p := range e.objs {
						out = append(out, p.it)
					}
				}
			}
		case qAll:
			return t.expectedAll()
		}
		return expect{exact: true, items: out}
	}
	if q.Kind == qAll {
		return t.expectedAll()
	}
	key := string(q.rawKey())
	ps := t.pairs(q.Idx)
	unique := q.Idx != idxTags
	var sel []pair
	for _, p := range ps {
		switch q.Kind {
		case qGet, qList:
			if p.key == key {
				sel = append(sel, p)
			}
		case qPrefix:
			if bytes.HasPrefix([]byte(p.key), []byte(key)) {
				sel = append(sel, p)
			}
		case qLowerBound:
			if p.key >= key {
				sel = append(sel, p)
			}
		}
	}
	if q.Kind == qGet && len(sel) > 1 {
		sel = sel[:1]
	}
	if q.Kind == qPrefix || q.Kind == qLowerBound {
		if !unique {
			// one query on a non-unique index reports an object once, however
			// many of its keys match (the index de-duplicates by primary key)
			return expect{exact: false, cands: sel, once: true}
		}
		if q.Idx == idxU {
			// unique multi-key index: an object whose several keys match may be
			// reported per key or once; both satisfy the statement
			return expect{exact: false, cands: sel}
		}
	}
	out := make([]item, len(sel))
	for i, p := range sel {
		out[i] = p.it
	}
	return expect{exact: true, items: out}
}

func (t *tState) expectedAll() expect {
	ps := t.pairs(idxID)
	out := make([]item, len(ps))
	for i, p := range ps {
		out[i] = p.it
	}
	return expect{exact: true, items: out}
}

// check compares a real answer with the expectation. "" means it is valid.
func (e expect) check(got []item) string {
	if e.exact {
		if len(got) != len(e.items) {
			return fmt.Sprintf("got %v, want %v", got, e.items)
		}
		for i := range got {
			if got[i] != e.items[i] {
				return fmt.Sprintf("got %v, want %v", got, e.items)
			}
		}
		return ""
	}
	// validity predicate for multi-key Prefix/LowerBound on a non-unique index:
	// a subsequence of the candidate pairs, no object outside the candidates,
	// every candidate object at least once.
	want := map[item]bool{}
	for _, c := range e.cands {
		want[c.it] = false
	}
	ci := 0
	for _, g := range got {
		if e.once && want[g] {
			return fmt.Sprintf("got %v reports %v more than once for one query", got, g)
		}
		if _, ok := want[g]; !ok {
			return fmt.Sprintf("got %v contains %v which matches no candidate (candidates %v)", got, g, e.cands)
		}
		found := false
		for ci < len(e.cands) {
			c := e.cands[ci]
			ci++
			if c.it == g {
				found = true
				break
			}
		}
		if !found {
			return fmt.Sprintf("got %v is not ordered as a subsequence of the candidates %v", got, e.cands)
		}
		want[g] = true
	}
	for it, seen := range want {
		if !seen {
			return fmt.Sprintf("got %v misses %v (candidates %v)", got, it, e.cands)
		}
	}
	return ""
}

// matchSet is the set of (index key, pk, item) tuples a query matches, used
// by the C06 change detector: the query's result changed iff this set changed.
func (t *tState) matchSet(q Query) string {
	var b bytes.Buffer
	switch q.Idx {
	case idxID, idxU, idxTags:
		if q.Kind == qAll {
			break
		}
		e := t.expected(q)
		if e.exact {
			fmt.Fprint(&b, e.items)
		} else {
			for _, c := range e.cands {
				fmt.Fprintf(&b, "%x/%x/%v ", c.key, c.pk, c.it)
			}
		}
		return b.String()
	}
	if q.Kind == qAll {
		// table-wide
		fmt.Fprintf(&b, "rev=%d ", t.rev)
		fmt.Fprint(&b, t.expectedAll().items)
		return b.String()
	}
	fmt.Fprint(&b, t.expected(q).items)
	return b.String()
}
