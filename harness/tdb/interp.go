//go:build verif

package tdb

import (
	"bytes"
	"os"
	"sync/atomic"
	"errors"
	"fmt"
	"iter"
	"strings"
	"runtime"
	"sort"
	"strconv"
	"testing"
	"testing/synctest"
	"time"

	"github.com/cilium/statedb"

	"verifharness/vk"
)

const (
	opBegin = iota
	opInsert
	opInsertWatch
	opModify
	opDelete
	opDeleteAll
	opCAS
	opCAD
	opCommit
	opAbort
	opWriteFinished
	opSnapshot
	opQuery
	opWatch
	opChanges
	opNext
	opCloseIter
	opGC
	opRegInit
	opMarkDone
	opInitWatch
	opBulkInsert // N objects with primary keys {'a', H+i}: wide fan-out below the key "a", large transactions
	opBulkDelete
	opNewTable // registers one more (unused) table while transactions may be open
	numOpKinds
)

var opNames = []string{"Begin", "Insert", "InsertWatch", "Modify", "Delete", "DeleteAll", "CAS", "CAD", "Commit", "Abort", "WriteFinished", "Snapshot", "Query", "Watch", "Changes", "Next", "CloseIter", "GC", "RegInit", "MarkDone", "InitWatch", "BulkInsert", "BulkDelete", "NewTable"}

type Op struct {
	K    int      `json:"k"`
	W    int      `json:"w,omitempty"`  // which open write txn
	T    int      `json:"t,omitempty"`  // table
	Ts   []int    `json:"ts,omitempty"` // Begin: table list (order, duplicates)
	ID   []byte   `json:"id,omitempty"`
	Us   [][]byte `json:"us,omitempty"`
	Tags [][]byte `json:"tags,omitempty"`
	Pfx  []P      `json:"pfx,omitempty"`
	Val  int      `json:"val,omitempty"`
	G    int      `json:"g,omitempty"` // guard selector / sub kind
	H    int      `json:"h,omitempty"` // handle index
	Q    *Query   `json:"q,omitempty"`
	N    int      `json:"n,omitempty"` // consume count, GC mode, name index
	P    int      `json:"p,omitempty"` // probe seed for sampled audits
	objN int      // bulk operations: identity of the element's object
}

func (o Op) String() string {
	s := fmt.Sprintf("%s(w=%d t=%d", opNames[o.K], o.W, o.T)
	if o.Ts != nil {
		s += fmt.Sprintf(" ts=%v", o.Ts)
	}
	if o.ID != nil || o.K == opInsert {
		s += fmt.Sprintf(" id=%x us=%x tags=%x pfx=%v val=%d", o.ID, o.Us, o.Tags, o.Pfx, o.Val)
	}
	if o.Q != nil {
		s += " q=" + o.Q.String()
	}
	return s + fmt.Sprintf(" g=%d h=%d n=%d)", o.G, o.H, o.N)
}

type Case struct {
	Tables  []TableSpec `json:"tables"`
	GC      bool        `json:"gc,omitempty"`      // start the graveyard worker (case runs in a synctest bubble)
	MaxTxns int         `json:"maxTxns,omitempty"` // 1 or 2 concurrently open write transactions
	EmptyBegin bool     `json:"emptyBegin,omitempty"` // Begin with an empty table list opens a write transaction that holds no table
	Ops     []Op        `json:"ops"`
}

type result struct {
	err        error
	sig        string
	foreign    string
	foreignMsg string // what the other property's assertion said
	foreignAt  int    // op index at which it fired
	nontrivial bool
	classes    map[string]int
	trace      []string // C02-B observation trace (one entry per op index)
	elidable   []bool   // C02-B: op belonged to a transaction that was aborted
	panicked   bool
	panicAt    int
	panicMsg   string
}

func (r *result) class(c string) {
	if r.classes == nil {
		r.classes = map[string]int{}
	}
	r.classes[c]++
}

func (r *result) classList() []string {
	out := make([]string, 0, len(r.classes))
	for k := range r.classes {
		out = append(out, k)
	}
	sort.Strings(out)
	return out
}

type stopCase struct{}

var keepAlive []any

type wtxn struct {
	txn      statedb.WriteTxn
	locked   map[int]bool
	st       *dbState // the transaction's view
	base     *dbState // committed state when the transaction started
	baseSeq  int
	wrote    map[int]bool
	nOps     int
	okWrites int
	rejAfterWrite bool
	firstOp  int
	opIdx    []int
	newIters []*iterState
	newFns   []*initFn
	marked   []*initFn
	iwatches []*watchState
	regs     int
	abortedMarks int
}

type snap struct {
	txn   statedb.ReadTxn
	st    *dbState
	seq   int
	takenAt int
	audits []tableAudit
	laterCommittedWrite bool
}

type watchState struct {
	ch      <-chan struct{}
	table   int
	q       *Query // nil for InsertWatch
	pk      string // InsertWatch
	base    *tState
	baseRev uint64
	origin  string
	closedSeen bool
	excused bool
	armed   bool // InsertWatch: armed once its transaction has committed
	survivedAbort bool
	changedByCommit bool
	noopSince bool // a commit holding the table without a successful write to it happened since the channel was handed out
}

type event struct {
	rev     uint64
	pk      string
	deleted bool
	it      item
}

type iterState struct {
	it       statedb.ChangeIterator[*Obj]
	table    int
	created  uint64 // table revision in the creating transaction
	registered bool
	dead     bool
	closed   bool
	replay   map[string]item
	lastRev  uint64
	lastSeq  int
	marked   uint64 // highest delivered deletion revision
	openWatch <-chan struct{}
	openSince int // commitSeq-like counter of successful-write commits on the table when the open watch was handed out
	delivDeletes map[string]uint64
	nDeliveredDel int
	partial  bool
	usedWtxn bool
	gcBetween bool
	nt bool
}

type initFn struct {
	fn     func(statedb.WriteTxn)
	table  int
	name   string
	valid  bool // registration committed
	attempts int
	done   bool // mark committed
	creator *wtxn
}

type initWatch struct {
	ch    <-chan struct{}
	table int
	closedSeen bool
	satisfied bool
	regSince bool // a new initializer was registered (committed) on the table since
	viaTxn   *wtxn // obtained through Initialized(wtxn) inside this write transaction
}

type hookObs struct {
	point   string
	digests map[int]uint64
}

type interp struct {
	held []*heldIter
	extra []statedb.RWTable[*Obj] // tables registered in the middle of the case
	own  string
	c    Case
	opt  Options
	db   *statedb.DB
	tbls []statedb.RWTable[*Obj]
	cur  *dbState
	seq  int
	ws   []*wtxn
	lastFinished statedb.WriteTxn
	lastFinishedLocked map[int]bool
	lastWrote map[int]bool
	elid []bool
	gcParkedA atomic.Bool
	snaps   []*snap
	iters   []*iterState
	watches []*watchState
	fns     []*initFn
	iwatches []*initWatch
	writeCommits []int // per table: number of commits with >=1 successful write
	mainG   uint64
	committing *wtxn
	hookLog []hookObs
	hookViol func()
	gate    chan struct{}
	caseDone chan struct{}
	gcRuns  int
	step    int
	res     result
	obs     *observer
	modelTuples [][]uint64
	obsPos  int
}

// Options select behaviour that differs between the property tests.
type Options struct {
	Trace     bool   // record the C02-B observation trace
	Skip      []bool // C02-B second run: ops to skip
	FullAuditEvery bool // C04: audit the whole table against the model after every commit
}

func gid() uint64 {
	var buf [64]byte
	n := runtime.Stack(buf[:], false)
	// "goroutine 123 ["
	b := buf[len("goroutine "):n]
	i := bytes.IndexByte(b, ' ')
	id, _ := strconv.ParseUint(string(b[:i]), 10, 64)
	return id
}

func isClosed(ch <-chan struct{}) bool {
	select {
	case <-ch:
		return true
	default:
		return false
	}
}

// viol records a violation of property prop and stops the case. If prop is not
// the property this run owns, the case is abandoned as a foreign divergence.
func (in *interp) viol(prop, sig, format string, args ...any) {
	in.violNoStop(prop, sig, format, args...)
	panic(stopCase{})
}

func (in *interp) violNoStop(prop, sig, format string, args ...any) {
	if in.res.err != nil || in.res.foreign != "" {
		return
	}
	if prop != in.own {
		in.res.foreign = prop
		in.res.foreignAt = in.step
		in.res.foreignMsg = fmt.Sprintf("step %d %v: %s", in.step, in.curOp(), fmt.Sprintf(format, args...))
		return
	}
	in.res.sig = sig
	in.res.err = fmt.Errorf("step %d %v: %s", in.step, in.curOp(), fmt.Sprintf(format, args...))
}

func (in *interp) curOp() string {
	if in.step >= 0 && in.step < len(in.c.Ops) {
		return in.c.Ops[in.step].String()
	}
	return "(end of case)"
}

const gcInterval = 50 * time.Millisecond

// Run executes one case. Cases with GC run inside a synctest bubble.
func Run(t *testing.T, c Case, own string, opt Options) (res result) {
	if c.GC {
		// A goroutine blocked on a table lock is not "durably blocked" for
		// synctest: a lock leaked by the collector would hang the bubble
		// silently. A real-time watchdog outside the bubble turns that into a
		// verdict: no case takes anywhere near this long.
		if own == "C10" {
			// leave the case on disk: statedb's own finalizer check panics (and
			// kills the process) when a leaked write transaction is collected
			vk.WriteInProgress("C10", HangTest, c, "the process died while this case ran: statedb's finalizer found a write transaction that was never committed or aborted (a leaked table lock), or the case hung")
		}
		done := make(chan struct{})
		go func() {
			select {
			case <-done:
			case <-time.After(hangAfter):
				// report first, allocate later: a garbage collection may run the
				// finalizer of a leaked write transaction, which panics
				msg := fmt.Sprintf("the case did not finish within %v of real time: a write transaction, iterator Close or collector round is blocked forever (virtual time cannot advance while a goroutine waits for a table lock)", hangAfter)
				if own == "C10" {
					path := vk.WriteReplay("C10", HangTest, c, "hang", msg)
					fmt.Printf("VERIF-VIOLATION property=C10 test=%s sig=hang replay=%s\n", HangTest, path)
					os.Stdout.Sync()
					buf := make([]byte, 1<<16)
					fmt.Printf("%s\n", buf[:runtime.Stack(buf, true)])
					os.Exit(1)
				}
				fmt.Printf("VERIF-HANG (owned by C10, this run is %s): %s\n", own, firstN(msg, 600))
				os.Exit(3)
			}
		}()
		defer close(done)
		defer func() {
			// synctest reports a bubble in which every goroutine is durably
			// blocked (e.g. an iterator Close waiting for the parked collector
			// to take a channel hand-off) by panicking in the caller. The
			// unchanged code never waits for the collector: for C10 this is a
			// request that is never granted. The goroutines of the bubble are
			// lost, so the process ends here like in the hang case.
			r := recover()
			if r == nil {
				return
			}
			if !strings.Contains(fmt.Sprint(r), "all goroutines in bubble are blocked") {
				panic(r)
			}
			msg := fmt.Sprintf("the case cannot finish: every goroutine (the case's operations, the parked graveyard collector) is blocked forever: %v - a write transaction, iterator Close or collector round waits for something that is never granted", r)
			if own == "C10" {
				path := vk.WriteReplay("C10", HangTest, c, "bubble-deadlock", msg)
				fmt.Printf("VERIF-VIOLATION property=C10 test=%s sig=bubble-deadlock replay=%s\n", HangTest, path)
				os.Stdout.Sync()
				os.Exit(1)
			}
			fmt.Printf("VERIF-HANG (owned by C10, this run is %s): %s\n", own, firstN(msg, 600))
			os.Exit(3)
		}()
		synctest.Test(t, func(*testing.T) {
			res = run(c, own, opt)
		})
		return res
	}
	return run(c, own, opt)
}

// HangTest is the test that owns hang verdicts.
const HangTest = "TestC10Graveyard"

var hangAfter = 30 * time.Second

func firstN(s string, n int) string {
	if len(s) > n {
		return s[:n]
	}
	return s
}

func run(c Case, own string, opt Options) result {
	in := &interp{own: own, c: c, opt: opt, step: -1}
	in.mainG = gid()
	in.elid = make([]bool, len(c.Ops)+1)
	if len(c.Tables) == 0 {
		c.Tables = []TableSpec{{Mask: 0x1e}}
		in.c = c
	}
	in.db = statedb.New()
	in.cur = &dbState{}
	for i, spec := range c.Tables {
		tbl, err := newTable(in.db, fmt.Sprintf("t%d", i), spec)
		if err != nil {
			panic(err)
		}
		in.tbls = append(in.tbls, tbl)
		in.cur.tables = append(in.cur.tables, &tState{spec: spec, objs: map[string]mObj{}, dels: map[string]delInfo{}})
		in.writeCommits = append(in.writeCommits, 0)
	}
	in.gate = make(chan struct{})
	in.caseDone = make(chan struct{})
	statedb.VerifSetHook(in.onHook)
	defer statedb.VerifSetHook(nil)
	if c.GC {
		in.db.VerifSetGCRateLimitInterval(gcInterval)
		in.db.Start()
	}
	in.recordModelTuple()
	if !c.GC && !opt.Trace && (own == "C02" || own == "C06" || own == "C19") {
		// a free-running observer goroutine (not inside synctest bubbles: it spins)
		in.obs = newObserver(in)
		defer func() {
			if in.obs != nil {
				in.obs.close()
			}
		}()
	}
	func() {
		defer func() {
			if r := recover(); r != nil {
				if _, ok := r.(stopCase); ok {
					return
				}
				// a panic in the code under test: a violation of model-exactness
				buf := make([]byte, 4096)
				buf = buf[:runtime.Stack(buf, false)]
				in.res.panicked = true
				in.res.panicAt = in.step
				in.res.panicMsg = fmt.Sprint(r)
				in.violNoStop(in.panicOwner(), "panic", "panic: %v\n%s", r, buf)
			}
		}()
		for i, o := range c.Ops {
			in.step = i
			if opt.Skip != nil && i < len(opt.Skip) && opt.Skip[i] {
				in.placeholder(o)
				if opt.Trace {
					in.res.trace = append(in.res.trace, "")
				}
				continue
			}
			var wBefore *wtxn
			if len(in.ws) > 0 {
				wBefore = in.ws[0]
			}
			obs := in.exec(o)
			// C02-B bookkeeping: a transaction-scoped operation belongs to the
			// transaction that was open when it ran (or that it opened).
			if elidableKinds[o.K] || (o.K == opQuery && o.H < 0) {
				target := wBefore
				if target == nil && len(in.ws) > 0 {
					target = in.ws[0]
				}
				if target != nil {
					target.opIdx = append(target.opIdx, i)
				}
			}
			in.boundary()
			if opt.Trace {
				in.res.trace = append(in.res.trace, obs+" | "+in.stateObs())
			}
		}
		in.step = len(c.Ops)
		in.finish()
	}()
	in.cleanup()
	if opt.Trace {
		in.res.elidable = make([]bool, len(c.Ops))
		for i := range in.res.elidable {
			in.res.elidable[i] = in.elid[i]
		}
	}
	return in.res
}

// panicOwner: a panic inside statedb is a violation of the property that owns
// the kind of operation in progress; only that property's test reports it.
func (in *interp) panicOwner() string {
	if in.step < 0 || in.step >= len(in.c.Ops) {
		return in.own
	}
	switch in.c.Ops[in.step].K {
	case opSnapshot:
		return "C01"
	case opCommit, opAbort, opBegin:
		return "C02"
	case opQuery:
		return "C04"
	case opWatch:
		return "C06"
	case opChanges, opNext, opCloseIter:
		return "C07"
	case opGC:
		return "C08"
	case opRegInit, opMarkDone, opInitWatch:
		return "C19"
	}
	return "C03"
}

func (in *interp) cleanup() {
	defer func() { recover() }()
	for _, w := range in.ws {
		func() {
			defer func() { recover() }()
			w.txn.Abort()
		}()
	}
	in.ws = nil
	close(in.caseDone)
	broken := in.res.err != nil || in.res.foreign != ""
	for _, it := range in.iters {
		if it.it != nil && !it.closed {
			if broken {
				// The database may be in a broken state: Close() (which opens a write
				// transaction itself) could panic half-way. Keep the iterator alive
				// instead so that its cleanup never runs.
				keepAlive = append(keepAlive, it.it)
				continue
			}
			func() {
				defer func() {
					if r := recover(); r != nil {
						owner := "C07"
						if in.own == "C02" {
							owner = "C02"
						}
						in.violNoStop(owner, "close-panic", "closing a change iterator at the end of the case panicked: %v", r)
						broken = true // the table lock may be left held: do not touch the others
					}
				}()
				it.it.Close()
			}()
		}
	}
	if in.c.GC {
		in.db.Stop()
	}
}

func (in *interp) onHook(point string, db *statedb.DB) {
	if db != in.db && db != nil {
		// another handle of our DB would still be in.db.dbState; a different DB is not ours
	}
	g := gid()
	if g != in.mainG {
		if point == "gc.scanned" {
			in.gcParkedA.Store(true)
			select {
			case <-in.gate:
			case <-in.caseDone:
			}
			in.gcParkedA.Store(false)
		}
		return
	}
	// main goroutine: observe
	in.hookChecks(point)
	if in.committing != nil {
		w := in.committing
		obs := hookObs{point: point, digests: map[int]uint64{}}
		rtxn := in.db.ReadTxn()
		for t := range w.locked {
			obs.digests[t] = lightDigest(in.tbls[t], rtxn)
		}
		in.hookLog = append(in.hookLog, obs)
	}
}

func (in *interp) table(i int) int {
	n := len(in.tbls)
	return ((i % n) + n) % n
}

func (in *interp) pickW(i int) *wtxn {
	if len(in.ws) == 0 {
		return nil
	}
	return in.ws[((i%len(in.ws))+len(in.ws))%len(in.ws)]
}

var elidableKinds = map[int]bool{opBegin: true, opInsert: true, opInsertWatch: true, opModify: true, opDelete: true, opDeleteAll: true, opCAS: true, opCAD: true, opCommit: true, opAbort: true, opChanges: true, opRegInit: true, opMarkDone: true, opBulkInsert: true, opBulkDelete: true}

func (in *interp) begin(ts []int) *wtxn {
	max := in.c.MaxTxns
	if max < 1 {
		max = 1
	}
	if len(in.ws) >= max {
		return nil
	}
	var metas []statedb.TableMeta
	locked := map[int]bool{}
	for _, t := range ts {
		t = in.table(t)
		busy := false
		for _, w := range in.ws {
			if w.locked[t] {
				busy = true
			}
		}
		if busy {
			continue
		}
		metas = append(metas, in.tbls[t])
		locked[t] = true
	}
	if len(metas) == 0 && !(len(ts) == 0 && in.c.EmptyBegin) {
		return nil
	}
	if len(metas) == 0 {
		in.res.class("wtxn_without_tables")
	}
	if len(metas) != len(locked) {
		in.res.class("wtxn_duplicate_tables")
	}
	w := &wtxn{locked: locked, wrote: map[int]bool{}, base: in.cur, baseSeq: in.seq, firstOp: in.step}
	w.txn = in.db.WriteTxn(metas...)
	w.st = in.cur.cloneShallow()
	for t := range locked {
		w.st.tables[t] = in.cur.tables[t].clone()
	}
	in.ws = append(in.ws, w)
	if len(in.ws) == 2 {
		in.res.class("two_open_txns")
	}
	return w
}

func (in *interp) needW(o Op) *wtxn {
	if w := in.pickW(o.W); w != nil {
		// prefer a txn that holds the table
		t := in.table(o.T)
		if !w.locked[t] {
			for _, w2 := range in.ws {
				if w2.locked[t] && o.G%4 != 3 { // G%4==3: deliberately write to a table the txn does not hold
					return w2
				}
			}
		}
		return w
	}
	return in.begin([]int{o.T})
}

func (in *interp) newObj(o Op) *Obj {
	// Key sets are passed on as generated, duplicates included: an indexer may
	// yield the same key twice and the indexes must cope (the model de-duplicates).
	obj := &Obj{N: in.step*4 + 1, ID: cloneBytes(o.ID), Val: o.Val}
	if o.objN != 0 {
		obj.N = o.objN
	}
	for _, x := range o.Us {
		obj.Us = append(obj.Us, cloneBytes(x))
	}
	for _, x := range o.Tags {
		obj.Tags = append(obj.Tags, cloneBytes(x))
	}
	for _, p := range o.Pfx {
		obj.Pfx = append(obj.Pfx, p.norm())
	}
	return obj
}

func merge(old, new *Obj) *Obj {
	return &Obj{N: new.N + 1, ID: new.ID, Us: old.Us, Tags: new.Tags, Pfx: old.Pfx, Val: old.Val + new.Val}
}

func errName(err error) string {
	switch {
	case err == nil:
		return "nil"
	case errors.Is(err, statedb.ErrTableNotLockedForWriting):
		return "ErrTableNotLockedForWriting"
	case errors.Is(err, statedb.ErrTransactionClosed):
		return "ErrTransactionClosed"
	case errors.Is(err, statedb.ErrRevisionNotEqual):
		return "ErrRevisionNotEqual"
	case errors.Is(err, statedb.ErrObjectNotFound):
		return "ErrObjectNotFound"
	}
	return "other(" + err.Error() + ")"
}

func objN(o *Obj) int {
	if o == nil {
		return 0
	}
	return o.N
}

// guard picks the revision argument of a compare-and-* operation.
func (in *interp) guard(ts *tState, pk string, g int) (uint64, string) {
	cur, exists := ts.objs[pk]
	switch ((g % 4) + 4) % 4 {
	case 0:
		if exists {
			return cur.rev, "current"
		}
		return ts.rev + 1, "any(missing)"
	case 1:
		if exists && cur.rev > 1 {
			return cur.rev - 1, "stale"
		}
		return ts.rev + 7, "never-issued"
	case 2:
		var revs []uint64
		for k, m := range ts.objs {
			if k != pk {
				revs = append(revs, m.rev)
			}
		}
		if len(revs) > 0 {
			sort.Slice(revs, func(i, j int) bool { return revs[i] < revs[j] })
			return revs[g/4%len(revs)], "other-object"
		}
		return ts.rev + 3, "never-issued"
	}
	return ts.rev + 1000, "never-issued"
}

// exec runs one operation and returns its observation string (C02-B trace).
func (in *interp) exec(o Op) string {
	switch o.K {
	case opBegin:
		in.markElid()
		if w := in.begin(o.Ts); w != nil {
			w.opIdx = append(w.opIdx, in.step)
			return "begin"
		}
		if len(in.ws) > 0 {
			in.ws[0].opIdx = append(in.ws[0].opIdx, in.step)
		}
		return "begin-skipped"
	case opInsert, opInsertWatch, opModify, opDelete, opDeleteAll, opCAS, opCAD:
		in.markElid()
		w := in.needW(o)
		if w == nil {
			return "nowtxn"
		}
		w.opIdx = append(w.opIdx, in.step)
		return in.write(o, w)
	case opBulkInsert, opBulkDelete:
		in.markElid()
		w := in.needW(o)
		if w == nil {
			return "nowtxn"
		}
		w.opIdx = append(w.opIdx, in.step)
		n := o.N
		if n <= 256 && o.H+n > 256 {
			n = 256 - o.H
		}
		for i := 0; i < n; i++ {
			// P=1: no sampled audit inside the transaction (it would iterate the
			// transaction's trees and freeze the nodes written so far)
			id := []byte{'a', byte(o.H + i)}
			if o.N > 256 {
				// large bulks (hundreds of objects, graveyards of hundreds of
				// deletions): keys {'a', hi, lo}
				id = []byte{'a', byte(i >> 8), byte(i)}
			}
			e := Op{K: opInsert, W: o.W, T: o.T, ID: id, Tags: o.Tags, Pfx: o.Pfx, Val: o.Val, G: o.G &^ 3, P: 1, objN: 1000000 + in.step*4096 + i*4 + 1}
			if o.K == opBulkDelete {
				e.K = opDelete
			}
			in.write(e, w)
		}
		in.res.class("bulk_write")
		if n > 256 {
			in.res.class("bulk_write_over_256_objects")
		}
		return fmt.Sprintf("bulk %d", n)
	case opNewTable:
		if len(in.extra) < 4 {
			tbl, err := newTable(in.db, fmt.Sprintf("x%d", len(in.extra)), TableSpec{})
			if err != nil {
				in.viol("C05", "newtable", "NewTable(x%d) failed: %v", len(in.extra), err)
			}
			in.extra = append(in.extra, tbl)
			in.res.class("table_registered_midcase")
		}
		return "newtable"
	case opCommit:
		in.markElid()
		if w := in.pickW(o.W); w != nil {
			w.opIdx = append(w.opIdx, in.step)
			in.commit(w)
			return "commit"
		}
		return "nocommit"
	case opAbort:
		in.markElid()
		if w := in.pickW(o.W); w != nil {
			w.opIdx = append(w.opIdx, in.step)
			in.abort(w)
			return "abort"
		}
		return "noabort"
	case opWriteFinished:
		return in.writeFinished(o)
	case opSnapshot:
		in.takeSnapshot(in.db.ReadTxn(), in.cur, in.seq)
		return "snapshot"
	case opQuery:
		return in.query(o)
	case opWatch:
		return in.watch(o)
	case opChanges:
		in.markElid()
		return in.changes(o)
	case opNext:
		return in.next(o)
	case opCloseIter:
		return in.closeIter(o)
	case opGC:
		return in.gc(o)
	case opRegInit:
		in.markElid()
		return in.regInit(o)
	case opMarkDone:
		in.markElid()
		return in.markDone(o)
	case opInitWatch:
		return in.initWatch(o)
	}
	return ""
}

func (in *interp) markElid() {}

func (in *interp) elidMark(i int) {
	if i >= 0 && i < len(in.elid) {
		in.elid[i] = true
	}
}

// ------------------------------------------------------------------ writes

func (in *interp) write(o Op, w *wtxn) string {
	t := in.table(o.T)
	tbl := in.tbls[t]
	ts := w.st.tables[t]
	obj := in.newObj(o)
	pk := string(obj.ID)
	cur, exists := ts.objs[pk]
	w.nOps++
	var (
		gotOld          *Obj
		gotHad          bool
		err             error
		ch              <-chan struct{}
		wantOld         *Obj
		wantHad         bool
		wantErr         = "nil"
		mergeCalls      int
		mergeOld, mergeNew, mergeResult *Obj
		guardDesc       string
		rev             uint64
		panicked        any
	)
	locked := w.locked[t]
	// Fingerprint the transaction's view only around operations the model
	// expects to change nothing: iterating a write transaction freezes its
	// nodes (txnID bump) and would mask in-place mutation defects elsewhere.
	expectNoChange := !locked
	switch o.K {
	case opDelete:
		expectNoChange = expectNoChange || !exists
	case opCAS:
		r, _ := in.guard(ts, pk, o.G)
		expectNoChange = expectNoChange || !exists || cur.rev != r
	case opCAD:
		r, _ := in.guard(ts, pk, o.G)
		expectNoChange = expectNoChange || !exists || cur.rev != r
	case opDeleteAll:
		expectNoChange = expectNoChange || len(ts.objs) == 0
	}
	var before uint64
	if expectNoChange {
		before = lightDigest(tbl, w.txn)
	}
	beforeRev := tbl.Revision(w.txn)
	call := func(f func()) {
		defer func() {
			if r := recover(); r != nil {
				if _, ok := r.(stopCase); ok {
					panic(r)
				}
				panicked = r
			}
		}()
		f()
	}
	success := false
	stored := obj
	switch o.K {
	case opInsert:
		call(func() { gotOld, gotHad, err = tbl.Insert(w.txn, obj) })
		wantOld, wantHad, success = cur.o, exists, true
	case opInsertWatch:
		call(func() { gotOld, gotHad, ch, err = tbl.InsertWatch(w.txn, obj) })
		wantOld, wantHad, success = cur.o, exists, true
	case opModify:
		call(func() {
			gotOld, gotHad, err = tbl.Modify(w.txn, obj, func(old, new *Obj) *Obj {
				mergeCalls++
				mergeOld, mergeNew = old, new
				mergeResult = merge(old, new)
				return mergeResult
			})
		})
		wantOld, wantHad, success = cur.o, exists, true
		if exists {
			stored = nil // set from the merge result below
		}
	case opDelete:
		call(func() { gotOld, gotHad, err = tbl.Delete(w.txn, obj) })
		wantOld, wantHad, success = cur.o, exists, exists
	case opDeleteAll:
		call(func() { err = tbl.DeleteAll(w.txn) })
		success = len(ts.objs) > 0
	case opCAS:
		rev, guardDesc = in.guard(ts, pk, o.G)
		call(func() { gotOld, gotHad, err = tbl.CompareAndSwap(w.txn, rev, obj) })
		switch {
		case !exists:
			wantErr = "ErrObjectNotFound"
		case cur.rev != rev:
			wantErr, wantOld, wantHad = "ErrRevisionNotEqual", cur.o, true
		default:
			wantOld, wantHad, success = cur.o, true, true
		}
		in.res.class("cas_guard_" + guardDesc)
	case opCAD:
		rev, guardDesc = in.guard(ts, pk, o.G)
		call(func() { gotOld, gotHad, err = tbl.CompareAndDelete(w.txn, rev, obj) })
		switch {
		case !exists:
		case cur.rev != rev:
			wantErr, wantOld, wantHad = "ErrRevisionNotEqual", cur.o, true
		default:
			wantOld, wantHad, success = cur.o, true, true
		}
		in.res.class("cad_guard_" + guardDesc)
	}
	obs := fmt.Sprintf("%s old=%d had=%v err=%s", opNames[o.K], objN(gotOld), gotHad, errName(err))
	if !locked {
		in.res.class("write_on_unlocked_table")
		// A write on a table the transaction does not hold changes nothing and
		// reports ErrTableNotLockedForWriting (InsertWatch/DeleteAll: only "changes nothing").
		if panicked != nil {
			if o.K == opInsertWatch || o.K == opDeleteAll {
				in.res.class("tolerated_panic_unlocked")
			} else {
				in.viol("C03", "unlocked-panic", "%s on a table the transaction does not hold panicked: %v", opNames[o.K], panicked)
			}
		} else if o.K != opDeleteAll || len(ts.objs) > 0 {
			if errName(err) != "ErrTableNotLockedForWriting" {
				if o.K == opInsertWatch || o.K == opDeleteAll {
					in.res.class("unlocked_other_error")
				} else {
					in.viol("C03", "unlocked-error", "%s on a table the transaction does not hold returned %s, want ErrTableNotLockedForWriting", opNames[o.K], errName(err))
				}
			}
		}
		// "changes nothing" is C03's claim, the revision part of it also C09's:
		// the owner of the run judges first
		c03 := func() {
			if after := lightDigest(tbl, w.txn); after != before {
				in.viol("C03", "unlocked-changed", "%s on a table the transaction does not hold changed the table as seen by the transaction", opNames[o.K])
			}
			if d := lightDigest(tbl, in.db.ReadTxn()); d != modelDigest(in.cur.tables[t]) {
				in.viol("C03", "unlocked-changed", "%s on a table the transaction does not hold changed the committed state of that table", opNames[o.K])
			}
		}
		c09 := func() {
			if r := tbl.Revision(w.txn); r != beforeRev {
				in.viol("C09", "rev-after-reject", "%s on a table the transaction does not hold was rejected but moved that table's revision from %d to %d", opNames[o.K], beforeRev, r)
			}
			if r, want := tbl.Revision(in.db.ReadTxn()), in.cur.tables[t].rev; r != want {
				in.viol("C09", "rev-after-reject", "%s on a table the transaction does not hold was rejected but the committed revision of that table is now %d (model %d)", opNames[o.K], r, want)
			}
		}
		if in.own == "C01" {
			// a change of the committed entry shows in every retained snapshot: C01 judges first
			in.reaudit(false, in.step)
		}
		if in.own == "C09" {
			c09()
			c03()
		} else {
			c03()
			c09()
		}
		return obs
	}
	if panicked != nil {
		in.viol("C03", "panic", "%s panicked: %v", opNames[o.K], panicked)
	}
	// ---- result triple
	if o.K != opDeleteAll {
		if errName(err) != wantErr || gotHad != wantHad || (wantHad && gotOld != wantOld) || (!wantHad && gotOld != nil) {
			in.viol("C03", "write-result", "%s(id=%x guard=%d %s) returned (%v, %v, %s); the map model gives (%v, %v, %s)", opNames[o.K], obj.ID, rev, guardDesc, gotOld, gotHad, errName(err), wantOld, wantHad, wantErr)
		}
	} else if err != nil {
		in.viol("C03", "write-result", "DeleteAll returned %v", err)
	}
	if o.K == opModify {
		if exists {
			if mergeCalls != 1 || mergeOld != cur.o || mergeNew != obj {
				in.viol("C03", "modify-merge", "Modify of existing %x: merge called %d times with (%v,%v), want once with (%v,%v)", obj.ID, mergeCalls, mergeOld, mergeNew, cur.o, obj)
			}
			stored = mergeResult
		} else if mergeCalls != 0 {
			in.viol("C03", "modify-merge", "Modify of missing %x called merge", obj.ID)
		}
	}
	// ---- model update
	prevRev := ts.rev
	if success {
		w.okWrites++
		w.wrote[t] = true
		switch o.K {
		case opInsert, opInsertWatch, opModify, opCAS:
			ts.rev++
			ts.objs[pk] = mObj{stored, ts.rev}
			delete(ts.dels, pk)
			if exists && keysChanged(cur.o, stored) {
				in.res.class("key_changing_update")
			}
		case opDelete, opCAD:
			ts.rev++
			delete(ts.objs, pk)
			ts.dels[pk] = delInfo{item{cur.o.N, ts.rev}, in.trackers(w, t) > 0}
			if hasHostileKey(cur.o) {
				in.res.class("delete_with_hostile_key")
			}
		case opDeleteAll:
			keys := make([]string, 0, len(ts.objs))
			for k := range ts.objs {
				keys = append(keys, k)
			}
			sort.Strings(keys)
			for _, k := range keys {
				ts.rev++
				ts.dels[k] = delInfo{item{ts.objs[k].o.N, ts.rev}, in.trackers(w, t) > 0}
			}
			ts.objs = map[string]mObj{}
		}
	} else {
		if wantErr != "nil" {
			in.res.class("rejected_" + wantErr)
			if w.okWrites > 0 {
				w.rejAfterWrite = true
				in.res.class("rejected_after_successful_write")
			}
		} else {
			in.res.class("noop_delete")
		}
	}
	// ---- C09: revision bookkeeping inside the transaction
	gotRev := tbl.Revision(w.txn)
	if gotRev != ts.rev && !success && expectNoChange && in.own == "C03" {
		// "a rejected operation changes nothing" is C03's claim as well: in C03's
		// own runs the fingerprint comparison below (which includes the table
		// revision) judges it
	} else if gotRev != ts.rev {
		if success {
			in.viol("C09", "rev-after-write", "after successful %s the table revision in the transaction is %d, model %d (before %d)", opNames[o.K], gotRev, ts.rev, beforeRev)
		} else {
			in.viol("C09", "rev-after-reject", "after %s (%s) the table revision in the transaction is %d, it was %d", opNames[o.K], wantErr, gotRev, prevRev)
		}
	}
	// ---- read-your-writes (C03) and attribution of the revision (C09)
	if o.K != opDeleteAll {
		g, grev, found := tbl.Get(w.txn, idIndex.Query(obj.ID))
		m, mexists := ts.objs[pk]
		if found != mexists || (found && g != m.o) {
			in.viol("C03", "read-your-writes", "after %s(id=%x) Get in the same transaction returns (%v,%v); model (%v,%v)", opNames[o.K], obj.ID, g, found, m.o, mexists)
		}
		if found && grev != m.rev {
			in.viol("C09", "rev-attribution", "after %s(id=%x) the object carries revision %d, model %d (table revision %d)", opNames[o.K], obj.ID, grev, m.rev, ts.rev)
		}
	} else if n := tbl.NumObjects(w.txn); n != 0 {
		in.viol("C03", "read-your-writes", "after DeleteAll NumObjects in the transaction is %d", n)
	}
	// ---- rejected operations change nothing
	if !success && expectNoChange && in.own == "C09" {
		// the by-revision listing of the transaction must still be exactly the
		// live objects (C09's claim; in C09's own runs it is judged before the
		// fingerprint comparison of C03 below)
		in.checkRevisions(t, w.txn, ts, ts)
	}
	if !success && expectNoChange {
		if after := lightDigest(tbl, w.txn); after != before {
			in.viol("C03", "reject-changed", "%s rejected with %s changed the table as seen by the transaction", opNames[o.K], wantErr)
		}
	}
	// ---- InsertWatch channel
	if o.K == opInsertWatch && err == nil {
		if ch == nil {
			in.viol("C06", "nil-watch", "InsertWatch returned a nil channel")
		}
		if isClosed(ch) {
			in.viol("C06", "closed-at-handout", "InsertWatch(id=%x) returned an already closed channel", obj.ID)
		}
		ws := &watchState{ch: ch, table: t, pk: pk, baseRev: in.cur.tables[t].rev, origin: fmt.Sprintf("InsertWatch at step %d", in.step)}
		w.iwatches = append(w.iwatches, ws)
	}
	// ---- sampled in-transaction index audit (C04)
	if success && o.P%3 == 0 {
		in.auditSome(tbl, w.txn, ts, o.P, 6, "inside the write transaction")
	}
	return obs
}

func keysChanged(a, b *Obj) bool {
	return fmt.Sprint(a.Us, a.Tags, a.Pfx) != fmt.Sprint(b.Us, b.Tags, b.Pfx)
}

func hasHostileKey(o *Obj) bool {
	for _, k := range append(append([][]byte{}, o.Tags...), o.Us...) {
		if len(k) == 0 {
			return true
		}
		for _, b := range k {
			if b <= 2 {
				return true
			}
		}
	}
	return false
}

// auditSome runs n queries of the full audit list (chosen by seed) plus the
// table-level facts against the model state.
func (in *interp) auditSome(tbl statedb.RWTable[*Obj], txn statedb.ReadTxn, ts *tState, seed, n int, where string) {
	qs := auditQueries(ts.spec, ts)
	if n <= 0 || n > len(qs) {
		n = len(qs)
	}
	stride := len(qs)/n + 1
	for i := 0; i < n; i++ {
		q := qs[(seed*7+i*stride)%len(qs)]
		in.checkQuery(tbl, txn, ts, q, where)
	}
	if got, want := tbl.NumObjects(txn), len(ts.objs); got != want {
		in.viol("C04", "num-objects", "%s: NumObjects=%d, model %d", where, got, want)
	}
}

func (in *interp) checkQuery(tbl statedb.RWTable[*Obj], txn statedb.ReadTxn, ts *tState, q Query, where string) {
	if !ts.spec.has(q.Idx) {
		return
	}
	got, _ := runQuery(tbl, txn, q)
	if msg := ts.expected(q).check(got); msg != "" {
		in.viol("C04", "query-"+qNames[q.Kind]+"-"+idxNames[q.Idx], "%s: %v: %s", where, q, msg)
	}
}

// ------------------------------------------------------------------ commit / abort

func (in *interp) removeW(w *wtxn) {
	for i, x := range in.ws {
		if x == w {
			in.ws = append(in.ws[:i], in.ws[i+1:]...)
			return
		}
	}
}

func (in *interp) channelStates() []bool {
	out := make([]bool, 0, len(in.watches)+len(in.iwatches))
	for _, w := range in.watches {
		out = append(out, isClosed(w.ch))
	}
	for _, w := range in.iwatches {
		if w.viaTxn != nil {
			continue // belongs to an open transaction (elided with it in the C02-B differential)
		}
		out = append(out, isClosed(w.ch))
	}
	for _, it := range in.iters {
		if it.openWatch != nil {
			out = append(out, isClosed(it.openWatch))
		}
	}
	return out
}

func (in *interp) commit(w *wtxn) {
	pre := in.cur
	post := in.cur.cloneShallow()
	for t := range w.locked {
		post.tables[t] = w.st.tables[t]
	}
	// initialization: a table with no pending initializer left is initialized
	in.hookLog = nil
	closedBefore := map[*watchState]bool{}
	for _, ws := range in.watches {
		closedBefore[ws] = isClosed(ws.ch)
	}
	in.consumeHeld(w, 0, "before Commit")
	if len(in.ws) >= 2 && w.okWrites > 0 {
		in.res.class("commit_while_other_open")
	}
	in.committing = w
	rtxn := w.txn.Commit()
	in.committing = nil
	in.removeW(w)
	in.consumeHeld(w, 1, "after Commit")
	in.lastFinished, in.lastFinishedLocked, in.lastWrote = w.txn, w.locked, w.wrote
	in.cur = post
	in.seq++
	in.recordModelTuple()
	multi := 0
	for t := range w.locked {
		if w.wrote[t] {
			multi++
			in.writeCommits[t]++
		}
	}
	if multi >= 2 {
		in.res.class("commit_writes_in_2plus_tables")
	}
	if w.okWrites > 0 {
		in.res.class("commit_with_writes")
		for _, s := range in.snaps {
			s.laterCommittedWrite = true
		}
	} else {
		in.res.class("commit_without_writes")
	}
	// ---- C02-A: what every hook point inside Commit saw
	sawStored := false
	for _, obs := range in.hookLog {
		if obs.point == "commit.rootStored" {
			sawStored = true
		}
		for t, d := range obs.digests {
			want, phase := modelDigest(pre.tables[t]), "pre"
			if sawStored {
				want, phase = modelDigest(post.tables[t]), "post"
			}
			if d != want {
				other := modelDigest(post.tables[t])
				if sawStored {
					other = modelDigest(pre.tables[t])
				}
				what := "neither the pre- nor the post-commit state"
				if d == other {
					what = "the other side of the commit"
				}
				in.viol("C02", "commit-visibility", "a snapshot taken at %s shows table t%d in %s; expected the %s-commit state (tables of the txn: %v)", obs.point, t, what, phase, w.lockedList())
			}
		}
	}
	// the snapshot returned by Commit contains the writes; so does a fresh one
	fresh := in.db.ReadTxn()
	for t := range w.locked {
		if d := lightDigest(in.tbls[t], rtxn); d != modelDigest(post.tables[t]) {
			in.viol("C02", "commit-result", "the ReadTxn returned by Commit does not show the committed state of table t%d", t)
		}
		if d := lightDigest(in.tbls[t], fresh); d != modelDigest(post.tables[t]) {
			in.viol("C02", "commit-result", "a ReadTxn taken after Commit does not show the committed state of table t%d", t)
		}
	}
	for t := range in.tbls {
		if !w.locked[t] {
			if rev := in.tbls[t].Revision(fresh); rev < pre.tables[t].rev && in.own == "C09" {
				in.viol("C09", "revision-decreased", "the revision of table t%d went from %d to %d across a Commit that did not target it", t, pre.tables[t].rev, rev)
			}
			if d := lightDigest(in.tbls[t], fresh); d != modelDigest(post.tables[t]) {
				if in.own == "C05" {
					in.viol("C05", "lost-write", "after a Commit that did not target table t%d a fresh snapshot no longer shows the state committed to it earlier (a committed write was lost or overwritten by a stale state)", t)
				}
				in.viol("C02", "commit-other-table", "after a Commit that did not target table t%d a fresh snapshot shows a different state of it", t)
			}
		}
	}
	// ---- C04 / C09 on the committed state
	for t := range w.locked {
		ts := post.tables[t]
		if in.opt.FullAuditEvery {
			in.auditSome(in.tbls[t], rtxn, ts, 0, 0, "snapshot returned by Commit")
		} else {
			in.auditSome(in.tbls[t], rtxn, ts, in.step, 8, "snapshot returned by Commit")
		}
		in.checkRevisions(t, rtxn, ts, pre.tables[t])
	}
	// ---- event log, graveyard model
	for t := range w.locked {
		in.logEvents(t, pre.tables[t], post.tables[t])
	}
	// ---- iterators / initializers created in this transaction become real
	for _, it := range w.newIters {
		it.registered = true
		// Next must not be given a snapshot older than the commit that
		// registered the iterator (snapshots passed to Next are monotone and
		// start at the iterator's creation).
		it.lastSeq = in.seq
	}
	for _, f := range w.newFns {
		f.valid = true
	}
	for _, f := range w.marked {
		f.done = true
	}
	for _, ws := range w.iwatches {
		ws.armed = true
		ws.base = post.tables[ws.table]
		in.watches = append(in.watches, ws)
	}
	for _, ws := range in.watches {
		if w.locked[ws.table] && !w.wrote[ws.table] {
			ws.noopSince = true
		}
	}
	for _, iw := range in.iwatches {
		for _, f := range w.newFns {
			if f.table == iw.table {
				iw.regSince = true
			}
		}
	}
	// ---- C06 (b): no missed change
	for _, ws := range in.watches {
		if !w.locked[ws.table] || closedBefore[ws] {
			continue
		}
		changed := false
		if ws.q != nil {
			changed = ws.base.matchSet(*ws.q) != post.tables[ws.table].matchSet(*ws.q)
			if ws.q.Kind == qAll && w.wrote[ws.table] {
				changed = true
			}
		} else if ws.armed && len(w.iwatches) == 0 || ws.armed && !containsWS(w.iwatches, ws) {
			a, aok := ws.base.objs[ws.pk]
			b, bok := post.tables[ws.table].objs[ws.pk]
			changed = aok != bok || a != b
		}
		if changed {
			ws.changedByCommit = true
			if !isClosed(ws.ch) {
				in.viol("C06", "missed-change", "the channel from %s is still open after the Commit that changed its result (table t%d, %s)", ws.origin, ws.table, ws.desc())
			}
		}
	}
	// ---- C19: initialization channels
	for _, iw := range in.iwatches {
		if !w.locked[iw.table] || iw.satisfied {
			continue
		}
		initNow := len(post.tables[iw.table].pending) == 0
		if initNow && !isClosed(iw.ch) {
			in.viol("C19", "init-not-signalled", "table t%d became initialized by this Commit but the channel from Initialized() is still open", iw.table)
		}
		if initNow {
			iw.satisfied = true
			in.res.class("init_channel_closed_by_completion")
			continue
		}
		if !initNow && isClosed(iw.ch) {
			in.viol("C19", "init-early", "the channel from Initialized() of table t%d is closed although initializers %v are pending", iw.table, post.tables[iw.table].pending)
		}
	}
	// ---- C07: open watch channels of exhausted iterators
	for _, it := range in.iters {
		if it.openWatch == nil || !w.locked[it.table] {
			continue
		}
		if w.wrote[it.table] {
			if !isClosed(it.openWatch) {
				in.viol("C07", "open-watch-missed", "the open watch channel returned by Next() was not closed by a Commit that changed table t%d", it.table)
			}
			it.openWatch = nil
		} else if isClosed(it.openWatch) {
			in.viol("C07", "open-watch-spurious", "the open watch channel returned by Next() was closed by a Commit that did not change table t%d", it.table)
		}
	}
	if w.rejAfterWrite && w.nOps >= 3 {
		in.res.class("nt_c03")
	}
}

func containsWS(s []*watchState, w *watchState) bool {
	for _, x := range s {
		if x == w {
			return true
		}
	}
	return false
}

func (w *wtxn) lockedList() []int {
	var out []int
	for t := range w.locked {
		out = append(out, t)
	}
	sort.Ints(out)
	return out
}

func (ws *watchState) desc() string {
	if ws.q != nil {
		return ws.q.String()
	}
	return fmt.Sprintf("InsertWatch(%x)", ws.pk)
}

func (in *interp) logEvents(t int, pre, post *tState) {}

// checkRevisions: C09 invariants on a committed state.
func (in *interp) checkRevisions(t int, txn statedb.ReadTxn, ts, pre *tState) {
	tbl := in.tbls[t]
	if got := tbl.Revision(txn); got != ts.rev {
		in.viol("C09", "table-revision", "committed table t%d has revision %d, model %d", t, got, ts.rev)
	}
	if ts.rev < pre.rev {
		in.viol("C09", "table-revision", "model revision decreased")
	}
	seen := map[uint64]int{}
	var last uint64
	for o, r := range tbl.LowerBound(txn, statedb.ByRevision[*Obj](0)) {
		if r <= last {
			in.viol("C09", "by-revision-order", "LowerBound(ByRevision(0)) on t%d is not strictly ascending: %d after %d", t, r, last)
		}
		last = r
		if prev, dup := seen[r]; dup {
			in.viol("C09", "duplicate-revision", "objects #%d and #%d of t%d share revision %d", prev, o.N, t, r)
		}
		seen[r] = o.N
		if r > ts.rev {
			in.viol("C09", "object-above-table", "object #%d has revision %d above the table revision %d", o.N, r, ts.rev)
		}
	}
	for _, m := range ts.objs {
		if n, ok := seen[m.rev]; !ok || n != m.o.N {
			in.viol("C09", "by-revision-content", "t%d: object #%d with revision %d is missing from the by-revision listing", t, m.o.N, m.rev)
		}
	}
	if len(seen) != len(ts.objs) {
		in.viol("C09", "by-revision-content", "t%d: by-revision listing has %d objects, model %d", t, len(seen), len(ts.objs))
	}
}

func (in *interp) abort(w *wtxn) {
	before := in.channelStates()
	numDelBefore := make([]int, len(in.tbls))
	r0 := in.db.ReadTxn()
	for t := range in.tbls {
		numDelBefore[t] = statedb.VerifNumDeletedObjects(r0, in.tbls[t])
	}
	in.consumeHeld(w, 0, "before Abort")
	w.txn.Abort()
	in.removeW(w)
	in.consumeHeld(w, 1, "after Abort")
	in.lastFinished, in.lastFinishedLocked, in.lastWrote = w.txn, w.locked, nil
	after := in.channelStates()
	for i := range before {
		if before[i] != after[i] {
			in.viol("C06", "closed-by-abort", "an aborted transaction closed retained watch channel #%d", i)
		}
	}
	for _, ws := range in.watches {
		if !ws.closedSeen && w.locked[ws.table] && w.okWrites > 0 {
			ws.survivedAbort = true
		}
	}
	// channels handed out by Initialized(wtxn) of the aborted transaction may
	// belong to registrations that never happened: not judged any further
	kept := in.iwatches[:0:0]
	for _, iw := range in.iwatches {
		if iw.viaTxn != w {
			kept = append(kept, iw)
		}
	}
	in.iwatches = kept
	fresh := in.db.ReadTxn()
	for t := range in.tbls {
		if d := lightDigest(in.tbls[t], fresh); d != modelDigest(in.cur.tables[t]) {
			in.viol("C02", "abort-trace", "after Abort a fresh snapshot of table t%d differs from the state before the transaction", t)
		}
		if n := statedb.VerifNumDeletedObjects(fresh, in.tbls[t]); n != numDelBefore[t] {
			in.viol("C02", "abort-graveyard", "after Abort table t%d retains %d deleted objects, before %d", t, n, numDelBefore[t])
		}
	}
	for _, it := range w.newIters {
		it.dead = true
	}
	for _, f := range w.marked {
		w.abortedMarks++
		_ = f
	}
	if w.okWrites > 0 {
		in.res.class("abort_with_writes")
		for _, i := range w.opIdx {
			in.elidMark(i)
		}
	} else {
		in.res.class("abort_without_writes")
		for _, i := range w.opIdx {
			in.elidMark(i)
		}
	}
	if len(w.marked) > 0 {
		in.res.class("aborted_mark")
	}
	if w.regs > 0 {
		in.res.class("aborted_registration")
	}
}

func (in *interp) writeFinished(o Op) string {
	if in.lastFinished == nil {
		return "nofinished"
	}
	t := in.table(o.T)
	tbl := in.tbls[t]
	obj := in.newObj(o)
	before := lightDigest(tbl, in.db.ReadTxn())
	var err error
	var panicked any
	kind := ((o.G % 7) + 7) % 7
	func() {
		defer func() { panicked = recover() }()
		switch kind {
		case 0:
			_, _, err = tbl.Insert(in.lastFinished, obj)
		case 1:
			_, _, err = tbl.Modify(in.lastFinished, obj, merge)
		case 2:
			_, _, err = tbl.Delete(in.lastFinished, obj)
		case 3:
			_, _, err = tbl.CompareAndSwap(in.lastFinished, 1, obj)
		case 4:
			_, _, err = tbl.CompareAndDelete(in.lastFinished, 1, obj)
		case 5:
			_, _, _, err = tbl.InsertWatch(in.lastFinished, obj)
		case 6:
			err = tbl.DeleteAll(in.lastFinished)
		}
	}()
	in.res.class("write_on_finished_txn")
	if kind <= 4 {
		if panicked != nil {
			in.viol("C03", "finished-panic", "write kind %d through a finished transaction panicked: %v", kind, panicked)
		}
		if errName(err) != "ErrTransactionClosed" {
			in.viol("C03", "finished-error", "write kind %d through a finished transaction returned %s, want ErrTransactionClosed", kind, errName(err))
		}
	} else if panicked != nil {
		in.res.class("tolerated_panic_finished")
	}
	if after := lightDigest(tbl, in.db.ReadTxn()); after != before {
		in.viol("C03", "finished-changed", "a write through a finished transaction changed table t%d", t)
	}
	// Commit/Abort on a finished transaction are no-ops
	if o.P%2 == 0 {
		in.lastFinished.Abort()
		if r := in.lastFinished.Commit(); r != nil && false {
			_ = r
		}
		if after := lightDigest(tbl, in.db.ReadTxn()); after != before {
			in.viol("C03", "finished-changed", "Abort/Commit on a finished transaction changed table t%d", t)
		}
	}
	return "writeFinished " + errName(err)
}

// ------------------------------------------------------------------ snapshots and queries

func (in *interp) takeSnapshot(txn statedb.ReadTxn, st *dbState, seq int) {
	if len(in.snaps) >= 6 {
		return
	}
	s := &snap{txn: txn, st: st, seq: seq, takenAt: in.step}
	for t, tbl := range in.tbls {
		qs := auditQueries(st.tables[t].spec, st.tables[t])
		a := auditTable(tbl, txn, qs)
		s.audits = append(s.audits, a)
		// the recorded answers must themselves be right (C04); a mismatch here is
		// not a C01 matter
		ts := st.tables[t]
		for i, q := range qs {
			if msg := ts.expected(q).check(a.answers[i]); msg != "" {
				in.viol("C04", "query-"+qNames[q.Kind]+"-"+idxNames[q.Idx], "fresh snapshot: %v: %s", q, msg)
			}
		}
		if a.numObj != len(ts.objs) {
			in.viol("C04", "num-objects", "fresh snapshot: NumObjects=%d, model %d", a.numObj, len(ts.objs))
		}
		if a.rev != ts.rev {
			in.viol("C09", "table-revision", "fresh snapshot: Revision=%d, model %d", a.rev, ts.rev)
		}
		if a.init != (len(ts.pending) == 0) || !eqStringSets(a.pending, ts.pending) {
			in.viol("C19", "init-state", "fresh snapshot of t%d: Initialized=%v pending=%v; model pending=%v", t, a.init, a.pending, ts.pending)
		}
	}
	in.snaps = append(in.snaps, s)
	in.res.class("snapshot")
}

func eqStringSets(a, b []string) bool {
	if len(a) != len(b) {
		return false
	}
	x := append([]string(nil), a...)
	y := append([]string(nil), b...)
	sort.Strings(x)
	sort.Strings(y)
	return eqStrings(x, y)
}

// reaudit re-asks recorded queries of every retained snapshot (C01).
func (in *interp) reaudit(full bool, seed int) {
	for si, s := range in.snaps {
		for t, tbl := range in.tbls {
			rec := s.audits[t]
			if full {
				now := auditTable(tbl, s.txn, rec.queries)
				if d := rec.diff(now); d != "" {
					in.viol("C01", "snapshot-changed", "snapshot #%d (taken at step %d) table t%d answers differently now: %s (recorded vs now)", si, s.takenAt, t, d)
				}
				continue
			}
			n := len(rec.queries)
			for k := 0; k < 5; k++ {
				i := (seed*13 + k*101 + si*7 + t*3) % n
				if k == 0 {
					i = 0 // All()
				}
				got, _ := runQuery(tbl, s.txn, rec.queries[i])
				if !eqItems(got, rec.answers[i]) {
					in.viol("C01", "snapshot-changed", "snapshot #%d (taken at step %d) table t%d: %v returned %v when taken and %v now", si, s.takenAt, t, rec.queries[i], rec.answers[i], got)
				}
			}
			if r := tbl.Revision(s.txn); r != rec.rev {
				in.viol("C01", "snapshot-changed", "snapshot #%d table t%d: Revision was %d, now %d", si, t, rec.rev, r)
			}
			if n := tbl.NumObjects(s.txn); n != rec.numObj {
				in.viol("C01", "snapshot-changed", "snapshot #%d table t%d: NumObjects was %d, now %d", si, t, rec.numObj, n)
			}
		}
	}
}

// heldIter: an unconsumed query iterator with the answer the model gave when
// it was created. mode 0: consumed just before the owning write transaction
// finishes, 1: right after its Commit/Abort returned, 2: at the end of the case.
type heldIter struct {
	seq     iter.Seq2[*Obj, statedb.Revision]
	exp     expect
	q       Query
	t       int
	takenAt int
	where   string
	mode    int
	w       *wtxn
	done    bool
}

// consumeHeld consumes the held iterators of w (all of them when w is nil)
// whose mode is at most maxMode.
func (in *interp) consumeHeld(w *wtxn, maxMode int, when string) {
	for _, h := range in.held {
		if h.done || (w != nil && h.w != w) || h.mode > maxMode {
			continue
		}
		h.done = true
		got := collectSeq(h.seq)
		if msg := h.exp.check(got); msg != "" {
			in.viol("C01", "held-iterator", "iterator of %v on t%d created at step %d (%s), consumed %s: %s", h.q, h.t, h.takenAt, h.where, when, msg)
		}
		in.res.class("held_iterator_consumed_" + strings.ReplaceAll(when, " ", "_"))
	}
}

func (in *interp) query(o Op) string {
	if o.Q == nil {
		return "noquery"
	}
	t := in.table(o.T)
	q := *o.Q
	var (
		txn   statedb.ReadTxn
		st    *dbState
		where string
	)
	unlockedView := false
	switch {
	case o.H < 0 && len(in.ws) > 0:
		w := in.pickW(-o.H - 1)
		w.opIdx = append(w.opIdx, in.step)
		txn, st, where = w.txn, w.st, "inside the write transaction"
		in.res.class("query_in_wtxn")
		if !w.locked[t] {
			// a table the transaction does not hold: it reads the snapshot taken
			// when the transaction started, whatever was committed since (all of a
			// later commit or nothing of it: C02; frozen: C01)
			unlockedView = true
			in.res.class("query_in_wtxn_on_unheld_table")
		}
	case o.H > 0 && len(in.snaps) > 0:
		s := in.snaps[o.H%len(in.snaps)]
		txn, st, where = s.txn, s.st, fmt.Sprintf("retained snapshot taken at step %d", s.takenAt)
		in.res.class("query_on_retained_snapshot")
	default:
		txn, st, where = in.db.ReadTxn(), in.cur, "fresh snapshot"
	}
	ts := st.tables[t]
	if !ts.spec.has(q.Idx) {
		q.Idx = idxID
	}
	// LPM Get/List are asked only with full-length keys or stored prefixes
	if (q.Idx == idxLPM || q.Idx == idxULPM) && (q.Kind == qGet || q.Kind == qList) && !ts.lpmStored(q) {
		if q.Idx == idxLPM {
			q.Pfx.Len = 16
		} else {
			q.Len = 8 * ulpmBytes
		}
	}
	// ---- held iterators (C01): the iterator is created now and consumed later -
	// after further writes of the same transaction, after its Commit/Abort, or
	// at the end of the case; it must yield what the query matched now.
	holdEvery := 8
	if in.own == "C01" {
		holdEvery = 2
	}
	if o.P%holdEvery == 1 && q.Kind != qGet && len(in.held) < 12 {
		if seq := lazyQuery(in.tbls[t], txn, q); seq != nil {
			h := &heldIter{seq: seq, exp: ts.expected(q), q: q, t: t, takenAt: in.step, where: where, mode: (o.P / 8) % 3}
			if o.H < 0 && len(in.ws) > 0 {
				h.w = in.pickW(-o.H - 1)
			} else {
				h.mode = 2
			}
			in.held = append(in.held, h)
			in.res.class(fmt.Sprintf("held_iterator_mode%d", h.mode))
			return "query held"
		}
	}
	got, _ := runQuery(in.tbls[t], txn, q)
	if msg := ts.expected(q).check(got); msg != "" {
		if unlockedView && (in.own == "C02" || in.own == "C01") {
			in.viol(in.own, "open-txn-view", "%s of t%d (not held by it): %v: %s - the transaction's view of a table it does not hold must stay the snapshot taken when it started", where, t, q, msg)
		}
		in.viol("C04", "query-"+qNames[q.Kind]+"-"+idxNames[q.Idx], "%s of t%d: %v: %s", where, t, q, msg)
	}
	in.res.class("query_" + qNames[q.Kind] + "_" + idxNames[q.Idx])
	// a consumer that stops early gets the first elements and no more
	if stop := 1 + o.P%2; o.P%5 == 2 && len(got) > stop {
		if seq := lazyQuery(in.tbls[t], txn, q); seq != nil {
			var part []item
			for ob, r := range seq {
				part = append(part, item{ob.N, r})
				if len(part) == stop {
					break
				}
			}
			if !eqItems(part, got[:stop]) {
				in.viol("C04", "early-stop", "%s of t%d: %v consumed up to element %d yields %v, the full answer starts with %v", where, t, q, stop, part, got[:stop])
			}
			in.res.class("query_stopped_early")
		}
	}
	// the string interface must agree with the typed one
	if o.P%2 == 0 && q.Idx != idxRev {
		gotAny, err := runQueryAny(in.tbls[t], txn, q)
		if err != nil {
			in.viol("C04", "anytable", "%s of t%d: AnyTable %v failed: %v", where, t, q, err)
		}
		if !eqItems(gotAny, got) {
			in.viol("C04", "anytable", "%s of t%d: %v through AnyTable returned %v, typed %v", where, t, q, gotAny, got)
		}
	}
	if in.touchesChangedKey(t, q) {
		in.res.class("nt_c04")
	}
	return fmt.Sprintf("query %v", got)
}

// touchesChangedKey: C04 non-triviality - was some object's key set for this
// index changed (or an object with a hostile key deleted) earlier in the case?
func (in *interp) touchesChangedKey(t int, q Query) bool {
	return in.res.classes["key_changing_update"] > 0 || in.res.classes["delete_with_hostile_key"] > 0
}

func (in *interp) watch(o Op) string {
	if o.Q == nil {
		return "noquery"
	}
	t := in.table(o.T)
	q := *o.Q
	ts := in.cur.tables[t]
	if !ts.spec.has(q.Idx) {
		q.Idx = idxID
	}
	if q.Idx == idxRev {
		q.Idx = idxID
	}
	if (q.Idx == idxLPM || q.Idx == idxULPM) && (q.Kind == qGet || q.Kind == qList) && !ts.lpmStored(q) {
		if q.Idx == idxLPM {
			q.Pfx.Len = 16
		} else {
			q.Len = 8 * ulpmBytes
		}
	}
	rtxn := in.db.ReadTxn()
	_, ch := runQuery(in.tbls[t], rtxn, q)
	if ch == nil {
		in.viol("C06", "nil-watch", "%v on a fresh snapshot of t%d returned a nil watch channel", q, t)
	}
	if isClosed(ch) {
		in.viol("C06", "closed-at-handout", "%v on a fresh snapshot of t%d returned an already closed watch channel", q, t)
	}
	if len(in.watches) >= 48 {
		// drop the oldest satisfied one
		for i, ws := range in.watches {
			if ws.closedSeen {
				in.watches = append(in.watches[:i], in.watches[i+1:]...)
				break
			}
		}
	}
	if len(in.watches) < 48 {
		in.watches = append(in.watches, &watchState{ch: ch, table: t, q: &q, base: ts, baseRev: ts.rev, armed: true, origin: fmt.Sprintf("%v on the snapshot taken at step %d", q, in.step)})
	}
	in.res.class("watch_" + qNames[q.Kind] + "_" + idxNames[q.Idx])
	return "watch"
}

// ------------------------------------------------------------------ boundary checks (after every op, and at hook points)

// hookChecks run on the main goroutine at every hook point: C06 (d) and C19
// "signalled after visibility".
func (in *interp) hookChecks(point string) {
	var rtxn statedb.ReadTxn
	for _, ws := range in.watches {
		if ws.closedSeen || !isClosed(ws.ch) {
			continue
		}
		ws.closedSeen = true
		if rtxn == nil {
			rtxn = in.db.ReadTxn()
		}
		if rev := in.tbls[ws.table].Revision(rtxn); rev <= ws.baseRev {
			// closed although no newer revision is visible yet
			w := in.committing
			if w != nil && w.locked[ws.table] && !w.wrote[ws.table] {
				in.res.class("spurious_on_noop_commit")
				ws.excused = true
				continue
			}
			if w == nil && in.lastNoopCommit(ws.table) {
				in.res.class("spurious_on_noop_commit")
				ws.excused = true
				continue
			}
			in.violNoStop("C06", "early-wakeup", "at %s the channel from %s is closed but a snapshot taken now still shows table t%d at revision %d (the channel's snapshot had %d)", point, ws.origin, ws.table, rev, ws.baseRev)
		}
	}
	for _, iw := range in.iwatches {
		if iw.closedSeen || !isClosed(iw.ch) {
			continue
		}
		iw.closedSeen = true
		if rtxn == nil {
			rtxn = in.db.ReadTxn()
		}
		if ok, _ := in.tbls[iw.table].Initialized(rtxn); !ok {
			in.violNoStop("C19", "init-early", "at %s the channel from Initialized() of t%d is closed but a snapshot taken now reports the table uninitialized", point, iw.table)
		}
	}
}

// lastNoopCommit: the last finished transaction held the table and made no
// successful write to it (its commit can still close channels of nodes that
// rejected operations touched).
func (in *interp) lastNoopCommit(t int) bool {
	return in.lastFinishedLocked != nil && in.lastFinishedLocked[t] && in.lastWrote != nil && !in.lastWrote[t]
}

func (in *interp) boundary() {
	in.hookChecks("operation boundary")
	if in.own == "C08" && len(in.ws) == 0 {
		in.checkGraveyard("operation boundary")
	}
	if in.obs != nil {
		in.obs.publish()
		in.drainObserver()
	}
	if in.res.err != nil || in.res.foreign != "" {
		panic(stopCase{})
	}
	if in.own == "C09" || in.own == "C01" || in.own == "C02" {
		// An open write transaction sees the tables it does not hold as the
		// snapshot taken when it started: revision and object count of such a
		// table stay what they were then, whatever other transactions have
		// committed since (constant revision of a snapshot: C09; frozen: C01;
		// all of a later commit or nothing: C02).
		for _, w := range in.ws {
			for t, tbl := range in.tbls {
				if w.locked[t] || t >= len(w.st.tables) {
					continue
				}
				ts := w.st.tables[t]
				if rev := tbl.Revision(w.txn); rev != ts.rev {
					in.viol(in.own, "open-txn-revision", "an open write transaction that does not hold t%d reports revision %d for it; it was %d when the transaction started (the table's committed revision is now %d)", t, rev, ts.rev, in.cur.tables[t].rev)
				}
				if n := tbl.NumObjects(w.txn); n != len(ts.objs) {
					in.viol(in.own, "open-txn-numobjects", "an open write transaction that does not hold t%d reports %d objects in it; there were %d when the transaction started", t, n, len(ts.objs))
				}
				if in.cur.tables[t].rev != ts.rev {
					in.res.class("unheld_table_changed_while_txn_open")
				}
			}
		}
	}
	in.reaudit(false, in.step)
}

// stateObs: the C02-B observation of the database state after an operation.
func (in *interp) stateObs() string {
	var b bytes.Buffer
	rtxn := in.db.ReadTxn()
	for t, tbl := range in.tbls {
		fmt.Fprintf(&b, "t%d:%x/%d ", t, lightDigest(tbl, rtxn), statedb.VerifNumDeletedObjects(rtxn, tbl))
	}
	fmt.Fprintf(&b, "ch:%v", in.channelStates())
	return b.String()
}

// finish: end-of-case checks.
func (in *interp) finish() {
	// commit what is still open so the last transactions are exercised too
	for len(in.ws) > 0 {
		in.commit(in.ws[0])
		in.boundary()
	}
	in.reaudit(true, 0)
	in.consumeHeld(nil, 2, "at the end of the case")
	// tables registered in the middle of the case are usable
	for i, tbl := range in.extra {
		wtxn := in.db.WriteTxn(tbl)
		_, _, err := tbl.Insert(wtxn, &Obj{N: 3000000 + i, ID: []byte{'x'}})
		rtxn := wtxn.Commit()
		if _, _, ok := tbl.Get(rtxn, idIndex.Query([]byte{'x'})); err != nil || !ok {
			in.viol("C05", "newtable-lost", "table x%d registered in the middle of the case: Insert returned %v, Get after Commit found=%v", i, err, ok)
		}
	}
	fresh := in.db.ReadTxn()
	for t := range in.tbls {
		in.auditSome(in.tbls[t], fresh, in.cur.tables[t], 0, 0, "final snapshot")
	}
	in.finishIterators()
	// non-triviality per property
	switch in.own {
	case "C01":
		for _, s := range in.snaps {
			if s.laterCommittedWrite {
				in.res.nontrivial = true
			}
		}
	case "C02":
		in.res.nontrivial = in.res.classes["commit_writes_in_2plus_tables"] > 0 || in.res.classes["abort_with_writes"] > 0
	case "C05":
		in.res.nontrivial = in.res.classes["commit_while_other_open"] > 0
	case "C03":
		in.res.nontrivial = in.res.classes["nt_c03"] > 0
	case "C04":
		in.res.nontrivial = in.res.classes["nt_c04"] > 0
	case "C06":
		changed, survived := false, false
		for _, ws := range in.watches {
			changed = changed || ws.changedByCommit
			survived = survived || ws.survivedAbort
		}
		in.res.nontrivial = changed && survived
	case "C09":
		in.res.nontrivial = in.res.classes["rejected_after_successful_write"] > 0 && in.res.classes["abort_with_writes"] > 0
	case "C19":
		in.res.nontrivial = in.res.classes["init_registered"] >= 2 && (in.res.classes["aborted_mark"] > 0 || in.res.classes["aborted_registration"] > 0)
	}
}
