//go:build verif

package tdb

import (
	"fmt"
	"sort"
	"testing/synctest"
	"time"

	"github.com/cilium/statedb"
)

// trackers: number of change iterators registered on table t as seen by the
// write transaction w (committed, not closed, plus those created in w).
func (in *interp) trackers(w *wtxn, t int) int {
	n := 0
	for _, it := range in.iters {
		if it.table != t || it.closed || it.dead || it.it == nil {
			continue
		}
		if it.registered {
			n++
			continue
		}
		for _, x := range w.newIters {
			if x == it {
				n++
			}
		}
	}
	return n
}

func (in *interp) changes(o Op) string {
	t := in.table(o.T)
	if in.opt.Skip != nil {
		// placeholder keeps handle indexes aligned in the elided run (C02-B)
	}
	live := 0
	for _, it := range in.iters {
		if it.it != nil && !it.closed && !it.dead {
			live++
		}
	}
	if live >= 4 {
		return "too-many-iterators"
	}
	var w *wtxn
	for _, x := range in.ws {
		if x.locked[t] {
			w = x
		}
	}
	if w == nil {
		w = in.begin([]int{t})
	}
	if w == nil {
		// another txn is open and the single-txn limit is reached: Changes on a
		// table it does not hold must fail and change nothing
		w = in.pickW(o.W)
		w.opIdx = append(w.opIdx, in.step)
		it, err := in.tbls[t].Changes(w.txn)
		if err == nil || it != nil {
			in.viol("C03", "changes-unlocked", "Changes() through a transaction that does not hold table t%d succeeded", t)
		}
		in.iters = append(in.iters, &iterState{table: t, dead: true})
		return "changes-unlocked " + errName(err)
	}
	w.opIdx = append(w.opIdx, in.step)
	it, err := in.tbls[t].Changes(w.txn)
	if err != nil {
		in.viol("C07", "changes-error", "Changes() on a locked table failed: %v", err)
	}
	st := &iterState{it: it, table: t, created: w.st.tables[t].rev, replay: map[string]item{}, delivDeletes: map[string]uint64{}, lastSeq: -1}
	st.marked = st.created
	if w.okWrites > 0 {
		in.res.class("changes_after_writes_in_txn")
	}
	in.iters = append(in.iters, st)
	w.newIters = append(w.newIters, st)
	in.res.class("changes_created")
	return "changes"
}

// placeholderIter keeps iterator indexes aligned when an op is skipped (C02-B).
func (in *interp) placeholder(o Op) {
	switch o.K {
	case opChanges:
		in.iters = append(in.iters, &iterState{table: in.table(o.T), dead: true})
	case opRegInit:
		in.fns = append(in.fns, &initFn{table: in.table(o.T)})
	}
}

func (in *interp) liveIter(h int) *iterState {
	var live []*iterState
	for _, it := range in.iters {
		if it.it != nil && it.registered && !it.closed && !it.dead {
			live = append(live, it)
		}
	}
	if len(live) == 0 {
		return nil
	}
	return live[((h%len(live))+len(live))%len(live)]
}

func (in *interp) next(o Op) string {
	it := in.liveIter(o.H)
	if it == nil {
		return "noiter"
	}
	t := it.table
	var (
		txn  statedb.ReadTxn = in.db.ReadTxn()
		st                   = in.cur
		seq                  = in.seq
		what                 = "fresh ReadTxn"
	)
	switch ((o.G % 3) + 3) % 3 {
	case 1:
		if len(in.snaps) > 0 {
			s := in.snaps[((o.W%len(in.snaps))+len(in.snaps))%len(in.snaps)]
			if s.seq >= it.lastSeq {
				txn, st, seq, what = s.txn, s.st, s.seq, fmt.Sprintf("retained snapshot of step %d", s.takenAt)
				in.res.class("next_with_retained_snapshot")
			}
		}
	case 2:
		if w := in.pickW(o.W); w != nil && w.baseSeq >= it.lastSeq {
			txn, st, seq = w.txn, w.base, w.baseSeq
			what = fmt.Sprintf("open WriteTxn on %v", w.lockedList())
			it.usedWtxn = true
			if w.locked[t] && w.wrote[t] {
				in.res.class("next_with_wtxn_uncommitted_writes")
				it.nt = true
			} else {
				in.res.class("next_with_wtxn")
			}
		}
	}
	ts := st.tables[t]
	changes, watch := it.it.Next(txn)
	it.lastSeq = seq
	if watch == nil {
		in.viol("C07", "nil-watch", "Next() returned a nil watch channel")
	}
	if !isClosed(watch) {
		// nothing pending: the sequence is empty, and the consumer is up to date
		n := 0
		for range changes {
			n++
		}
		if n != 0 {
			in.viol("C07", "open-watch-yields", "Next(%s) returned an open watch channel together with %d changes", what, n)
		}
		in.checkConverged(it, ts, what+" (open watch returned)")
		it.openWatch = watch
		in.res.class("next_open_watch")
		return "next-open"
	}
	it.openWatch = nil
	limit := o.N
	delivered := 0
	complete := true
	var obs string
	if limit == 0 {
		// consume nothing: the sequence is simply not started
		changes = func(func(statedb.Change[*Obj], statedb.Revision) bool) {}
		complete = false
	}
	for ch, rev := range changes {
		if limit > 0 && delivered >= limit {
			// (not reached: we stop right after processing the limit-th change)
			break
		}
		delivered++
		obs += fmt.Sprintf(" %d@%d/%v", ch.Object.N, rev, ch.Deleted)
		if ch.Revision != rev {
			in.viol("C07", "change-revision", "change carries Revision %d but is yielded with %d", ch.Revision, rev)
		}
		if rev <= it.lastRev {
			in.viol("C07", "order", "Next(%s) delivered revision %d after %d", what, rev, it.lastRev)
		}
		it.lastRev = rev
		pk := string(ch.Object.ID)
		if ch.Deleted {
			d, ok := ts.dels[pk]
			if _, live := ts.objs[pk]; live || !ok || d.it != (item{ch.Object.N, rev}) {
				in.viol("C07", "uncommitted-or-unknown-delete", "Next(%s) delivered deletion of #%d at revision %d, which is not a deletion committed in that snapshot (snapshot: live=%v last deletion=%v)", what, ch.Object.N, rev, live, d.it)
			}
			if rev <= it.created {
				in.viol("C07", "old-delete", "Next(%s) delivered a deletion at revision %d made before the iterator was created at %d", what, rev, it.created)
			}
			delete(it.replay, pk)
			it.delivDeletes[pk] = rev
			it.marked = rev
			it.nDeliveredDel++
		} else {
			m, ok := ts.objs[pk]
			if !ok || m.o != ch.Object || m.rev != rev {
				in.viol("C07", "uncommitted-or-unknown-update", "Next(%s) delivered update of #%d at revision %d, which is not an object of that snapshot (snapshot has %v)", what, ch.Object.N, rev, m)
			}
			it.replay[pk] = item{ch.Object.N, rev}
		}
		if limit > 0 && delivered >= limit {
			// stop after a fully processed change; whether more were pending is
			// unknown, so this counts as a partial consumption
			complete = false
			break
		}
	}
	if !complete {
		it.partial = true
		in.res.class("next_partial")
	} else {
		in.checkConverged(it, ts, what)
		in.res.class("next_full")
	}
	if it.nDeliveredDel > 0 && (it.partial || it.gcBetween) {
		it.nt = true
	}
	return "next" + obs
}

// checkConverged: after full consumption, replaying everything delivered so
// far gives exactly the snapshot, and every deletion since creation was handed out.
func (in *interp) checkConverged(it *iterState, ts *tState, what string) {
	if len(it.replay) != len(ts.objs) {
		in.viol("C07", "not-converged", "after fully consuming Next(%s) the replayed changes give %d objects, the snapshot has %d (replay %v)", what, len(it.replay), len(ts.objs), it.replay)
	}
	for pk, m := range ts.objs {
		if got, ok := it.replay[pk]; !ok || got != (item{m.o.N, m.rev}) {
			in.viol("C07", "not-converged", "after fully consuming Next(%s) key %x replays to %v, the snapshot has #%d@%d", what, pk, got, m.o.N, m.rev)
		}
	}
	for pk, d := range ts.dels {
		if d.it.rev > it.created {
			if got := it.delivDeletes[pk]; got != d.it.rev {
				in.viol("C07", "missed-delete", "after fully consuming Next(%s) the deletion of key %x at revision %d (after the iterator's creation at %d) was never delivered (last delivered deletion of that key: %d)", what, pk, d.it.rev, it.created, got)
			}
		}
	}
}

func (in *interp) closeIter(o Op) string {
	it := in.liveIter(o.H)
	if it == nil {
		return "noiter"
	}
	for _, w := range in.ws {
		if w.locked[it.table] {
			return "busy" // Close takes the table lock itself
		}
	}
	it.it.Close()
	it.closed = true
	it.openWatch = nil
	in.res.class("iter_closed")
	if in.c.GC {
		synctest.Wait()
	}
	return "closed"
}

func (in *interp) gc(o Op) string {
	if !in.c.GC || len(in.ws) > 0 {
		return "nogc"
	}
	release := func() {
		parked := in.gcParkedA.Load()
		select {
		case in.gate <- struct{}{}:
		default:
		}
		synctest.Wait()
		if parked {
			in.gcRuns++
			in.res.class("gc_round_released")
			for _, it := range in.iters {
				if it.it != nil && it.registered && !it.closed {
					it.gcBetween = true
				}
			}
		}
	}
	switch ((o.N % 3) + 3) % 3 {
	case 0:
		// request a round and let the collector scan; it parks at the gate
		// (between its lock-free scan and its write transaction) if it found work
		in.db.VerifTriggerGC()
		time.Sleep(gcInterval)
		synctest.Wait()
		in.res.class("gc_time_advance")
		if in.gcParkedA.Load() {
			in.res.class("gc_parked_with_work")
		}
	case 1:
		release()
	case 2:
		in.db.VerifTriggerGC()
		time.Sleep(gcInterval)
		synctest.Wait()
		release()
	}
	in.checkGraveyard("after GC op")
	return "gc"
}

// checkGraveyard: C08 safety bounds on the number of retained deletions.
func (in *interp) checkGraveyard(when string) {
	if in.own != "C08" {
		// These bounds do not feed the model; other properties' runs go on so
		// that e.g. C07 sees the consequence (a lost deletion) itself.
		return
	}
	rtxn := in.db.ReadTxn()
	for t, tbl := range in.tbls {
		ts := in.cur.tables[t]
		var minMarked uint64
		open := 0
		for _, it := range in.iters {
			if it.table == t && it.it != nil && it.registered && !it.closed && !it.dead {
				if open == 0 || it.marked < minMarked {
					minMarked = it.marked
				}
				open++
			}
		}
		upper, needed := 0, 0
		for _, d := range ts.dels {
			if d.tracked {
				upper++
				if open > 0 && d.it.rev > minMarked {
					needed++
				}
			}
		}
		got := statedb.VerifNumDeletedObjects(rtxn, tbl)
		if got < needed {
			in.viol("C08", "discarded-too-early", "%s: table t%d retains %d deleted objects but %d deletions have not been handed to every open iterator yet (lowest iterator position %d)", when, t, got, needed, minMarked)
		}
		if got > upper {
			in.viol("C08", "graveyard-extra", "%s: table t%d retains %d deleted objects, at most %d deletions were made while an iterator was registered", when, t, got, upper)
		}
		if open == 0 && needed == 0 && upper == 0 && got != 0 {
			in.viol("C08", "retained-without-iterator", "%s: table t%d retains %d deleted objects although no iterator was registered when they were deleted", when, t, got)
		}
	}
}

// finishIterators: every live iterator catches up with the final state; with
// the collector running, the graveyard must then drain.
func (in *interp) finishIterators() {
	for _, it := range in.iters {
		if it.it == nil || !it.registered || it.closed || it.dead {
			continue
		}
		for round := 0; round < 3; round++ {
			r := in.next(Op{K: opNext, H: in.liveIndex(it), N: -1})
			if r == "next-open" {
				break
			}
		}
		if it.nt {
			in.res.class("nt_c07")
		}
	}
	in.checkGraveyard("end of case")
	if in.c.GC {
		hadWork := false
		rtxn := in.db.ReadTxn()
		for _, tbl := range in.tbls {
			if statedb.VerifNumDeletedObjects(rtxn, tbl) > 0 {
				hadWork = true
			}
		}
		close(in.gate) // collector runs freely from now on
		time.Sleep(3 * gcInterval)
		synctest.Wait()
		time.Sleep(3 * gcInterval)
		synctest.Wait()
		rtxn = in.db.ReadTxn()
		for t, tbl := range in.tbls {
			if n := statedb.VerifNumDeletedObjects(rtxn, tbl); n != 0 && in.own == "C08" {
				in.viol("C08", "not-collected", "all iterators of table t%d have caught up or are closed and 6 collection intervals have passed, but %d deleted objects are still retained", t, n)
			}
		}
		if hadWork {
			in.res.class("graveyard_drained_at_end")
		}
	}
	if in.own == "C07" {
		in.res.nontrivial = in.res.classes["nt_c07"] > 0
	}
	if in.own == "C08" || in.own == "C10" {
		in.res.nontrivial = in.res.classes["gc_round_released"] > 0 && in.res.classes["next_partial"]+in.res.classes["next_full"] > 0
	}
}

func (in *interp) liveIndex(target *iterState) int {
	i := 0
	for _, it := range in.iters {
		if it.it != nil && it.registered && !it.closed && !it.dead {
			if it == target {
				return i
			}
			i++
		}
	}
	return 0
}

// ------------------------------------------------------------------ initializers (C19)

func (in *interp) regInit(o Op) string {
	t := in.table(o.T)
	var w *wtxn
	for _, x := range in.ws {
		if x.locked[t] {
			w = x
		}
	}
	if w == nil {
		w = in.begin([]int{t})
	}
	if w == nil {
		in.fns = append(in.fns, &initFn{table: t})
		if len(in.ws) > 0 {
			in.ws[0].opIdx = append(in.ws[0].opIdx, in.step)
		}
		return "reginit-skipped"
	}
	w.opIdx = append(w.opIdx, in.step)
	ts := w.st.tables[t]
	name := fmt.Sprintf("init%d", ((o.N%4)+4)%4)
	for _, p := range ts.pending {
		if p == name {
			in.fns = append(in.fns, &initFn{table: t})
			return "reginit-dup"
		}
	}
	fn := in.tbls[t].RegisterInitializer(w.txn, name)
	ts.pending = append(ts.pending, name)
	f := &initFn{fn: fn, table: t, name: name, creator: w}
	in.fns = append(in.fns, f)
	w.newFns = append(w.newFns, f)
	w.regs++
	in.res.class("init_registered")
	in.checkInitInTxn(w, t)
	return "reginit " + name
}

func (in *interp) markDone(o Op) string {
	var cands []*initFn
	for _, f := range in.fns {
		if f.fn == nil || f.done {
			continue
		}
		if f.valid {
			cands = append(cands, f)
			continue
		}
		for _, w := range in.ws {
			if f.creator == w {
				cands = append(cands, f)
			}
		}
	}
	if len(cands) == 0 {
		return "nomark"
	}
	f := cands[((o.H%len(cands))+len(cands))%len(cands)]
	var w *wtxn
	for _, x := range in.ws {
		if x.locked[f.table] {
			w = x
		}
	}
	if w == nil {
		w = in.begin([]int{f.table})
	}
	if w == nil {
		if len(in.ws) > 0 {
			in.ws[0].opIdx = append(in.ws[0].opIdx, in.step)
		}
		return "mark-skipped"
	}
	if !f.valid && f.creator != w {
		return "mark-skipped"
	}
	w.opIdx = append(w.opIdx, in.step)
	for _, m := range w.marked {
		if m == f {
			return "mark-twice-skipped"
		}
	}
	ts := w.st.tables[f.table]
	f.fn(w.txn)
	kept := ts.pending[:0:0]
	for _, p := range ts.pending {
		if p != f.name {
			kept = append(kept, p)
		}
	}
	ts.pending = kept
	w.marked = append(w.marked, f)
	if f.attempts > 0 {
		in.res.class("mark_repeated_after_abort")
	}
	f.attempts++
	in.res.class("init_marked")
	in.checkInitInTxn(w, f.table)
	return "mark " + f.name
}

func (in *interp) checkInitInTxn(w *wtxn, t int) {
	ts := w.st.tables[t]
	ok, _ := in.tbls[t].Initialized(w.txn)
	pend := in.tbls[t].PendingInitializers(w.txn)
	if ok != (len(ts.pending) == 0) || !eqStringSets(pend, ts.pending) {
		in.viol("C19", "init-state", "inside the transaction t%d reports Initialized=%v pending=%v; model pending=%v", t, ok, pend, ts.pending)
	}
}

func (in *interp) initWatch(o Op) string {
	t := in.table(o.T)
	// one time in three: ask inside an open write transaction that holds the
	// table (its own registrations count; the channel is judged at its Commit)
	if o.H%3 == 1 {
		for _, w := range in.ws {
			if !w.locked[t] {
				continue
			}
			w.opIdx = append(w.opIdx, in.step)
			ts := w.st.tables[t]
			ok, ch := in.tbls[t].Initialized(w.txn)
			if ok != (len(ts.pending) == 0) {
				in.viol("C19", "init-state", "inside the transaction t%d reports Initialized=%v; model pending=%v", t, ok, ts.pending)
			}
			if !ok {
				if isClosed(ch) {
					in.viol("C19", "init-early", "Initialized(wtxn) of t%d (uninitialized in the transaction) returned a closed channel", t)
				}
				if len(in.iwatches) < 16 {
					in.iwatches = append(in.iwatches, &initWatch{ch: ch, table: t, viaTxn: w})
				}
				in.res.class("init_watch_retained_in_txn")
			}
			return fmt.Sprintf("initwatch-in-txn %v", ok)
		}
	}
	rtxn := in.db.ReadTxn()
	ts := in.cur.tables[t]
	ok, ch := in.tbls[t].Initialized(rtxn)
	pend := append([]string(nil), in.tbls[t].PendingInitializers(rtxn)...)
	if ok != (len(ts.pending) == 0) || !eqStringSets(pend, ts.pending) {
		in.viol("C19", "init-state", "fresh snapshot: t%d reports Initialized=%v pending=%v; model pending=%v", t, ok, pend, ts.pending)
	}
	if ch == nil {
		in.viol("C19", "nil-watch", "Initialized() returned a nil channel")
	}
	if !ok {
		if isClosed(ch) {
			in.viol("C19", "init-early", "Initialized() of uninitialized t%d returned a closed channel", t)
		}
		if len(in.iwatches) < 16 {
			in.iwatches = append(in.iwatches, &initWatch{ch: ch, table: t})
		}
		in.res.class("init_watch_retained")
	} else if !isClosed(ch) {
		in.viol("C19", "init-not-signalled", "Initialized() of initialized t%d returned an open channel", t)
	}
	sort.Strings(pend)
	return fmt.Sprintf("initwatch %v %v", ok, pend)
}
