//go:build verif

package tdb

import (
	"fmt"
	"testing"

	"pgregory.net/rapid"

	"verifharness/vk"
)

var profC02A = Profile{W: with(baseWeights(), map[int]int{opBegin: 6, opInsert: 8, opQuery: 4, opSnapshot: 1, opChanges: 1, opNext: 1, opRegInit: 1, opMarkDone: 1}), TwoTxns: true}

const ruleC02A = "histories whose write transactions target 1-3 tables (Begin with arbitrary table lists, one or two transactions open at once on disjoint tables), committed or aborted. At every hook point inside Commit (commit.start, commit.indexesCommitted, commit.rootStored, commit.notified, commit.unlocked, commit.initClosed) a fresh snapshot is fingerprinted on every table the transaction holds: it must show the pre-commit state on all of them before the root store and the post-commit state on all of them afterwards; the ReadTxn returned by Commit and a fresh one must show the post state; tables the transaction does not hold are unchanged; queries made inside an open write transaction on tables it does not hold answer from the snapshot taken when it started, whatever was committed since; after Abort a fresh snapshot equals the committed model and the retained-deletion counts are unchanged. Non-trivial = a committed transaction with successful writes in >=2 tables or an aborted transaction with successful writes; distinct by case encoding."

func TestC02CommitVisibility(t *testing.T) {
	dbTest(t, "C02", "TestC02CommitVisibility", ruleC02A, profC02A, Options{})
}

// ---- oracle B: abort elision differential

var profC02B = Profile{W: with(baseWeights(), map[int]int{opAbort: 5, opSnapshot: 1, opQuery: 2, opWatch: 3, opChanges: 2, opNext: 4, opRegInit: 1, opMarkDone: 2, opInitWatch: 1}), NoWtxnNext: true}

const ruleC02B = "differential/metamorphic: each generated history (single open write transaction; inserts, updates, deletes, CAS/CAD, Changes(), initializer registration and completion, watch queries, iterator Next, snapshot queries) is executed on two fresh databases - as generated, and with every aborted transaction elided - and the observation traces of all operations outside aborted transactions must be identical: return values and errors, query answers, iterator deliveries, fingerprints of every table (contents, revision index, revision, initialization state), retained-deletion counts and the open/closed state of every retained watch channel after every operation. Non-trivial = the history contains an aborted transaction with at least one successful write or Changes()/initializer call followed by a later committed transaction; distinct by case encoding."

func runC02B(t *testing.T, c Case) (res result, nontrivial bool) {
	c.MaxTxns = 1
	c.GC = false
	full := Run(t, c, "C02", Options{Trace: true})
	if full.panicked && full.err == nil {
		// A panic in an operation owned by another property. If the same
		// operation runs fine once the aborted transactions before it are
		// elided, the aborted transactions left a trace: that is C02's.
		anyElided := false
		for _, e := range full.elidable {
			anyElided = anyElided || e
		}
		if anyElided {
			elided := Run(t, c, "C02", Options{Trace: true, Skip: full.elidable})
			if !elided.panicked {
				full.foreign = ""
				full.sig = "abort-trace-panic"
				full.err = fmt.Errorf("operation %d %v panics (%s) only when the aborted transactions before it (ops %v) have run; with them elided it succeeds", full.panicAt, c.Ops[full.panicAt], full.panicMsg, elidedIdx(full.elidable))
				return full, false
			}
		}
		return full, false
	}
	if full.err == nil && full.foreign != "" {
		// An assertion owned by another property (model mismatch of a query,
		// a return value, a revision ...) fired. If the history runs clean
		// once the aborted transactions before that point are elided, the
		// mismatch is a trace of an aborted transaction: that is C02's.
		before := false
		for i, e := range full.elidable {
			before = before || (e && i < full.foreignAt)
		}
		aborted := full.foreignAt >= 0 && full.foreignAt < len(full.elidable) && full.elidable[full.foreignAt]
		if before && !aborted {
			elided := Run(t, c, "C02", Options{Trace: true, Skip: full.elidable})
			if elided.err == nil && elided.foreign == "" && !elided.panicked {
				full.sig = "abort-trace-divergence"
				full.err = fmt.Errorf("%s (assertion of %s) - it fires only when the aborted transactions before it (ops %v) have run; with them elided the whole history agrees with the model", full.foreignMsg, full.foreign, elidedIdx(full.elidable))
				full.foreign = ""
			}
		}
		return full, false
	}
	if full.err != nil || full.foreign != "" {
		return full, false
	}
	anyElided := false
	for _, e := range full.elidable {
		anyElided = anyElided || e
	}
	if !anyElided {
		return full, false
	}
	elided := Run(t, c, "C02", Options{Trace: true, Skip: full.elidable})
	if elided.err != nil || elided.foreign != "" {
		// the elided history itself misbehaves: report it as is
		return elided, false
	}
	// compare traces of the operations outside aborted transactions
	lastElided := -1
	for i, e := range full.elidable {
		if e {
			lastElided = i
		}
	}
	laterCommit := false
	for i := range c.Ops {
		if i >= len(full.trace) || i >= len(elided.trace) {
			break
		}
		if full.elidable[i] {
			continue
		}
		if i > lastElided && c.Ops[i].K == opCommit {
			laterCommit = true
		}
		if full.trace[i] != elided.trace[i] {
			full.sig = "abort-trace"
			full.err = fmt.Errorf("operation %d %v observes a different world when the aborted transactions before it are elided:\n  with aborted txns: %s\n  without them:      %s\n  (elided op indexes: %v)", i, c.Ops[i], full.trace[i], elided.trace[i], elidedIdx(full.elidable))
			return full, false
		}
	}
	nt := full.classes["abort_with_writes"] > 0 || full.classes["aborted_mark"] > 0 || full.classes["aborted_registration"] > 0
	return full, nt && laterCommit
}

func elidedIdx(e []bool) []int {
	var out []int
	for i, b := range e {
		if b {
			out = append(out, i)
		}
	}
	return out
}

func TestC02AbortElision(t *testing.T) {
	const test = "TestC02AbortElision"
	var c Case
	if vk.Replaying() {
		if vk.Replay("C02", test, &c) {
			if res, _ := runC02B(t, c); res.err != nil {
				vk.Fail(t, "C02", test, c, res.sig, "%v", res.err)
			}
		}
		return
	}
	rec := vk.NewRecorder("C02", test, ruleC02B)
	defer rec.Flush()
	rapid.Check(t, func(rt *rapid.T) {
		c := genCase(rt, profC02B)
		res, nt := runC02B(t, c)
		classes := res.classList()
		if res.foreign != "" {
			classes = append(classes, "foreign_divergence_"+res.foreign)
		}
		rec.Case(c, nt, classes...)
		if res.err != nil {
			vk.Fail(rt, "C02", test, c, res.sig, "%v", res.err)
		}
	})
}
