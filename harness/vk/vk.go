// Package vk holds what all property checks share: the evidence recorder,
// the violation/replay file plumbing and a few generator helpers.
package vk

import (
	"encoding/json"
	"fmt"
	"hash/fnv"
	"os"
	"path/filepath"
	"sort"
	"strings"
	"sync"
	"time"
)

// Fataler is the part of *testing.T / *rapid.T the helpers need.
type Fataler interface {
	Fatalf(format string, args ...any)
}

// Recorder accumulates what one test function explored and writes it as a
// shard file that the driver merges into /verif/evidence/<id>.json.
type Recorder struct {
	Property string
	Test     string
	Rule     string

	mu          sync.Mutex
	start       time.Time
	evaluations int64
	nontrivial  map[uint64]struct{}
	classes     map[string]int64
	samples     []json.RawMessage
	trivSamples []json.RawMessage
	notes       map[string]any
	exhaustive  *bool
}

func NewRecorder(property, test, rule string) *Recorder {
	return &Recorder{
		Property:   property,
		Test:       test,
		Rule:       rule,
		start:      time.Now(),
		nontrivial: map[uint64]struct{}{},
		classes:    map[string]int64{},
		notes:      map[string]any{},
	}
}

const maxSamples = 3

// Case records one executed case. c must be JSON-encodable plain data.
func (r *Recorder) Case(c any, nontrivial bool, classes ...string) {
	r.mu.Lock()
	defer r.mu.Unlock()
	r.evaluations++
	for _, cl := range classes {
		r.classes[cl]++
	}
	if !nontrivial {
		if len(r.trivSamples) < 1 {
			if b, err := json.Marshal(c); err == nil {
				r.trivSamples = append(r.trivSamples, b)
			}
		}
		return
	}
	b, err := json.Marshal(c)
	if err != nil {
		panic(fmt.Sprintf("vk: case not encodable: %v", err))
	}
	h := fnv.New64a()
	h.Write(b)
	k := h.Sum64()
	if _, ok := r.nontrivial[k]; !ok {
		r.nontrivial[k] = struct{}{}
		if len(r.samples) < maxSamples && len(b) < 6000 {
			r.samples = append(r.samples, b)
		}
	}
}

// CaseKey is Case for enumerations where encoding every case would be
// wasteful: the caller supplies a key that identifies the case.
func (r *Recorder) CaseKey(key uint64, nontrivial bool, sample func() any, classes ...string) {
	r.mu.Lock()
	defer r.mu.Unlock()
	r.evaluations++
	for _, cl := range classes {
		r.classes[cl]++
	}
	if !nontrivial {
		return
	}
	if _, ok := r.nontrivial[key]; !ok {
		r.nontrivial[key] = struct{}{}
		if len(r.samples) < maxSamples && sample != nil {
			if b, err := json.Marshal(sample()); err == nil {
				r.samples = append(r.samples, b)
			}
		}
	}
}

func (r *Recorder) Count(class string, n int64) {
	r.mu.Lock()
	r.classes[class] += n
	r.mu.Unlock()
}

func (r *Recorder) Note(key string, v any) {
	r.mu.Lock()
	r.notes[key] = v
	r.mu.Unlock()
}

func (r *Recorder) Exhaustive(b bool) {
	r.mu.Lock()
	r.exhaustive = &b
	r.mu.Unlock()
}

type Shard struct {
	Property    string            `json:"property"`
	Test        string            `json:"test"`
	Rule        string            `json:"rule"`
	Evaluations int64             `json:"evaluations"`
	Nontrivial  []uint64          `json:"nontrivial"`
	Classes     map[string]int64  `json:"classes"`
	Samples     []json.RawMessage `json:"samples"`
	Notes       map[string]any    `json:"notes,omitempty"`
	Exhaustive  *bool             `json:"exhaustive,omitempty"`
	WallS       float64           `json:"wall_s"`
}

// Flush writes the shard file. Without VERIF_OUT nothing is written.
func (r *Recorder) Flush() {
	dir := os.Getenv("VERIF_OUT")
	if dir == "" {
		return
	}
	r.mu.Lock()
	defer r.mu.Unlock()
	sh := Shard{
		Property:    r.Property,
		Test:        r.Test,
		Rule:        r.Rule,
		Evaluations: r.evaluations,
		Classes:     r.classes,
		Samples:     r.samples,
		Notes:       r.notes,
		Exhaustive:  r.exhaustive,
		WallS:       time.Since(r.start).Seconds(),
	}
	if len(sh.Samples) == 0 {
		sh.Samples = r.trivSamples
	}
	sh.Nontrivial = []uint64{}
	for k := range r.nontrivial {
		sh.Nontrivial = append(sh.Nontrivial, k)
	}
	sort.Slice(sh.Nontrivial, func(i, j int) bool { return sh.Nontrivial[i] < sh.Nontrivial[j] })
	b, err := json.Marshal(sh)
	if err != nil {
		panic(err)
	}
	os.MkdirAll(dir, 0o755)
	name := fmt.Sprintf("%s-%s-%d.json", r.Property, sanitize(r.Test), os.Getpid())
	if err := os.WriteFile(filepath.Join(dir, name), b, 0o644); err != nil {
		panic(err)
	}
}

func sanitize(s string) string {
	return strings.Map(func(r rune) rune {
		if r == '/' || r == ' ' {
			return '_'
		}
		return r
	}, s)
}

// ReplayFile is the on-disk form of a failing case.
type ReplayFile struct {
	Property string          `json:"property"`
	Test     string          `json:"test"`
	Message  string          `json:"message"`
	Sig      string          `json:"sig,omitempty"`
	Case     json.RawMessage `json:"case"`
}

var (
	bestMu   sync.Mutex
	bestSize = map[string]int{}
)

// Fail saves the failing case as a replay file (keeping the smallest one seen
// by this process for the test), prints the marker line the driver looks for
// and fails the test. sig classifies the failure for known_findings matching.
func Fail(t Fataler, property, test string, c any, sig string, format string, args ...any) {
	msg := fmt.Sprintf(format, args...)
	path := WriteReplay(property, test, c, sig, msg)
	fmt.Printf("VERIF-VIOLATION property=%s test=%s sig=%s replay=%s\n", property, test, sig, path)
	t.Fatalf("%s: %s", property, msg)
}

func WriteReplay(property, test string, c any, sig, msg string) string {
	dir := os.Getenv("VERIF_REPLAY_DIR")
	if dir == "" {
		dir = "/verif/replays"
	}
	os.MkdirAll(dir, 0o755)
	cb, err := json.Marshal(c)
	if err != nil {
		panic(fmt.Sprintf("vk: case not encodable: %v", err))
	}
	tag := os.Getenv("VERIF_REPLAY_TAG")
	if tag != "" {
		tag = "-" + tag
	}
	path := filepath.Join(dir, fmt.Sprintf("%s-%s%s.json", property, sanitize(test), tag))
	bestMu.Lock()
	defer bestMu.Unlock()
	if prev, ok := bestSize[path]; ok && prev < len(cb) {
		return path
	}
	bestSize[path] = len(cb)
	rf := ReplayFile{Property: property, Test: test, Message: msg, Sig: sig, Case: cb}
	b, _ := json.MarshalIndent(rf, "", " ")
	if err := os.WriteFile(path, b, 0o644); err != nil {
		panic(err)
	}
	return path
}

// Replay reports whether the process was asked to replay a saved case that
// belongs to this test, and decodes it into c.
func Replay(property, test string, c any) bool {
	path := os.Getenv("VERIF_REPLAY")
	if path == "" {
		return false
	}
	b, err := os.ReadFile(path)
	if err != nil {
		panic(fmt.Sprintf("vk: cannot read replay file: %v", err))
	}
	var rf ReplayFile
	if err := json.Unmarshal(b, &rf); err != nil {
		panic(fmt.Sprintf("vk: bad replay file: %v", err))
	}
	if rf.Property != property || rf.Test != test {
		return false
	}
	if err := json.Unmarshal(rf.Case, c); err != nil {
		panic(fmt.Sprintf("vk: bad replay case: %v", err))
	}
	return true
}

// Replaying reports whether a replay was requested at all (tests that do not
// own the file skip themselves).
func Replaying() bool { return os.Getenv("VERIF_REPLAY") != "" }

// Thorough reports whether the driver runs the thorough tier.
func Thorough() bool { return os.Getenv("VERIF_TIER") == "thorough" }

// WriteInProgress leaves the case that is about to run on disk (overwritten
// case by case), for checks whose failure mode kills the process.
func WriteInProgress(property, test string, c any, msg string) {
	dir := os.Getenv("VERIF_REPLAY_DIR")
	if dir == "" {
		return
	}
	cb, err := json.Marshal(c)
	if err != nil {
		return
	}
	b, _ := json.Marshal(ReplayFile{Property: property, Test: test, Message: msg, Sig: "process-died", Case: cb})
	os.MkdirAll(dir, 0o755)
	os.WriteFile(filepath.Join(dir, fmt.Sprintf("%s-%s-inprogress.json", property, sanitize(test))), b, 0o644)
}
