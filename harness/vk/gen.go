package vk

import "pgregory.net/rapid"

// Ops draws an operation list whose length is spread over 1..2*maxMin while
// staying shrinkable: the minimum length is itself drawn (and shrinks to 1),
// and elements are drawn through SliceOfN so the shrinker can delete any of
// them.
func Ops[T any](t *rapid.T, gen *rapid.Generator[T], maxMin int, label string) []T {
	minN := rapid.IntRange(1, maxMin).Draw(t, label+"Min")
	return rapid.SliceOfN(gen, minN, minN*2+4).Draw(t, label)
}
