//go:build verif

package tstress

import (
	"context"
	"fmt"
	"testing"
	"time"

	"github.com/cilium/statedb"
	"github.com/cilium/stream"
	"pgregory.net/rapid"

	"verifharness/vk"
)

// IsoCase: a write transaction is held open on one table while the graveyard
// collector has work on OTHER tables; transactions on every other table must
// run to completion meanwhile (C10: "an open write transaction delays only
// transactions that share a table with it", collection included).
//
// Sound by construction: the held table never has change iterators, so it
// never holds collectible deletions and the collector of the unchanged code
// never needs its lock; the requests are made by goroutines that hold no other
// table.
type IsoCase struct {
	NTables int   `json:"nTables"` // 2..5
	Held    int   `json:"held"`    // table whose writer stays open
	Garbage []int `json:"garbage"` // tables (never the held one) with a change iterator and delivered deletions
	Objs    int   `json:"objs"`    // deletions per garbage table
	Order   []int `json:"order"`   // the order in which the other tables are written while the writer is open
	Rounds  int   `json:"rounds"`  // collector triggers while the writer is open
	Observe bool  `json:"observe,omitempty"` // an Observable subscription on the held table is cancelled while the writer is open
}

const isoGrace = 20 * time.Second

func runIso(c IsoCase) (sig string, err error) {
	db := statedb.New()
	db.VerifSetGCRateLimitInterval(time.Millisecond)
	n := max(2, c.NTables)
	held := ((c.Held % n) + n) % n
	var tables []statedb.RWTable[*acct]
	for i := 0; i < n; i++ {
		t, e := statedb.NewTable[*acct](db, fmt.Sprintf("t%d", i), acctIndex)
		if e != nil {
			panic(e)
		}
		tables = append(tables, t)
	}
	db.Start()
	defer db.Stop()
	var iters []statedb.ChangeIterator[*acct]
	isGarbage := map[int]bool{}
	for _, g := range c.Garbage {
		g = ((g % n) + n) % n
		if g == held || isGarbage[g] {
			continue
		}
		isGarbage[g] = true
		t := tables[g]
		wtxn := db.WriteTxn(t)
		it, e := t.Changes(wtxn)
		if e != nil {
			wtxn.Abort()
			return "changes", e
		}
		for k := 0; k < max(1, c.Objs); k++ {
			t.Insert(wtxn, &acct{ID: fmt.Sprintf("o%d", k)})
		}
		wtxn.Commit()
		wtxn = db.WriteTxn(t)
		for k := 0; k < max(1, c.Objs); k++ {
			t.Delete(wtxn, &acct{ID: fmt.Sprintf("o%d", k)})
		}
		rtxn := wtxn.Commit()
		// hand the deletions to the iterator: they become collectible
		changes, _ := it.Next(rtxn)
		for range changes {
		}
		iters = append(iters, it)
	}
	// an observer of the held table (it never sees deletions: none are made there)
	var (
		events    <-chan statedb.Change[*acct]
		cancelObs context.CancelFunc
	)
	if c.Observe {
		var ctx context.Context
		ctx, cancelObs = context.WithCancel(context.Background())
		defer cancelObs()
		events = stream.ToChannel(ctx, statedb.Observable(db, tables[held]))
		wtxn := db.WriteTxn(tables[held])
		tables[held].Insert(wtxn, &acct{ID: "seen"})
		wtxn.Commit()
		select {
		case <-events:
		case <-time.After(isoGrace):
			return "observable", fmt.Errorf("the observer of t%d did not receive a committed insert within %v", held, isoGrace)
		}
	}
	// the writer that stays open
	w := db.WriteTxn(tables[held])
	tables[held].Insert(w, &acct{ID: "held"})
	released := false
	release := func() {
		if !released {
			released = true
			w.Commit()
		}
	}
	defer release()
	if c.Observe {
		// cancelling a subscription completes the stream also while a writer of
		// the observed table is open (the subscriber must not have to wait for it)
		cancelObs()
		timeout := time.After(isoGrace)
	drain:
		for {
			select {
			case _, ok := <-events:
				if !ok {
					break drain
				}
			case <-timeout:
				release()
				return "completion-blocked-by-writer", fmt.Errorf("the stream of a cancelled Observable(t%d) did not complete within %v while a write transaction on t%d was open", held, isoGrace, held)
			}
		}
	}
	for r := 0; r < max(1, c.Rounds); r++ {
		db.VerifTriggerGC()
		time.Sleep(2 * time.Millisecond) // let the collector reach its write transaction
		for _, x := range c.Order {
			x = ((x % n) + n) % n
			if x == held {
				continue
			}
			done := make(chan struct{})
			go func() {
				defer close(done)
				wtxn := db.WriteTxn(tables[x])
				tables[x].Insert(wtxn, &acct{ID: fmt.Sprintf("r%d", r)})
				wtxn.Commit()
			}()
			select {
			case <-done:
			case <-time.After(isoGrace):
				// let everything finish before reporting
				release()
				<-done
				return "blocked-by-unrelated-writer", fmt.Errorf("WriteTxn(t%d)+Commit did not complete within %v while a write transaction on the unrelated table t%d was open (tables with collectible deletions: %v; it completed once that transaction was committed)", x, isoGrace, held, c.Garbage)
			}
			// readers never wait
			rtxn := db.ReadTxn()
			if _, _, ok := tables[x].Get(rtxn, acctIndex.Query(fmt.Sprintf("r%d", r))); !ok {
				return "lost-write", fmt.Errorf("the write committed to t%d is not visible", x)
			}
		}
	}
	release()
	for _, it := range iters {
		it.Close()
	}
	return "", nil
}

const ruleC10Iso = "2-5 tables; a subset of them (never the one whose writer is held) gets a change iterator, objects, delivered deletions (collectible garbage); a write transaction is opened on the held table and kept open while the collector is triggered 1-3 times and every other table is written (WriteTxn+Insert+Commit from a goroutine holding nothing else) in a generated order; each must complete (grace 20 s real time) and be visible to a reader; in a third of the cases an Observable subscription on the held table is cancelled while the writer is open and its stream must complete. Non-trivial = at least one garbage table has a lower root position than the held table; distinct by case encoding."

func TestC10CollectorIsolation(t *testing.T) {
	const test = "TestC10CollectorIsolation"
	var c IsoCase
	if vk.Replaying() {
		if vk.Replay("C10", test, &c) {
			if sig, err := runIso(c); err != nil {
				vk.Fail(t, "C10", test, c, sig, "%v", err)
			}
		}
		return
	}
	rec := vk.NewRecorder("C10", test, ruleC10Iso)
	defer rec.Flush()
	rapid.Check(t, func(rt *rapid.T) {
		c := IsoCase{NTables: rapid.IntRange(2, 5).Draw(rt, "nTables")}
		c.Held = rapid.IntRange(0, c.NTables-1).Draw(rt, "held")
		c.Garbage = rapid.SliceOfN(rapid.IntRange(0, c.NTables-1), 1, 4).Draw(rt, "garbage")
		c.Objs = rapid.IntRange(1, 3).Draw(rt, "objs")
		c.Order = rapid.SliceOfN(rapid.IntRange(0, c.NTables-1), 1, 5).Draw(rt, "order")
		c.Rounds = rapid.IntRange(1, 3).Draw(rt, "rounds")
		c.Observe = rapid.IntRange(0, 2).Draw(rt, "observe") == 0
		nt := false
		for _, g := range c.Garbage {
			if g%c.NTables < c.Held && g%c.NTables != c.Held {
				nt = true
			}
		}
		sig, err := runIso(c)
		cls := []string{"isolation"}
		if nt {
			cls = append(cls, "garbage_below_held")
		}
		rec.Case(c, nt, cls...)
		if err != nil {
			vk.Fail(rt, "C10", test, c, sig, "%v", err)
		}
	})
}
