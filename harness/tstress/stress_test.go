//go:build verif

// Package tstress is E-STRESS: generated workloads run by free-running
// goroutines (no schedule control; built with -race in the thorough tier).
// Oracles are invariants that hold for every interleaving.
package tstress

import (
	"encoding/json"
	"fmt"
	"os"
	"path/filepath"
	"runtime"
	"sync"
	"sync/atomic"
	"testing"
	"time"

	"github.com/cilium/statedb"
	"github.com/cilium/statedb/index"
	"pgregory.net/rapid"

	"verifharness/vk"
)

type acct struct {
	ID  string
	Bal int
	Cnt int
}

func (*acct) TableHeader() []string { return nil }
func (*acct) TableRow() []string    { return nil }

var acctIndex = statedb.Index[*acct, string]{
	Name:       "id",
	FromObject: func(a *acct) index.KeySet { return index.NewKeySet(index.String(a.ID)) },
	FromKey:    index.String,
	Unique:     true,
}

// Case: one stress round.
type Case struct {
	NTables    int     `json:"nTables"`
	Writers    [][]int `json:"writers"`    // per writer goroutine: its table list (order/duplicates as given)
	TxnsEach   int     `json:"txnsEach"`   // transactions per writer
	AbortEvery int     `json:"abortEvery"` // every n-th transaction aborts (0 = never)
	Readers    int     `json:"readers"`
	Registrars int     `json:"registrars"` // goroutines registering new tables while writers run
	RegEach    int     `json:"regEach"`
	Iterators  int     `json:"iterators"` // goroutines creating/consuming/closing change iterators
}

type violation struct {
	prop, sig, msg string
}

type world struct {
	db       *statedb.DB
	mu       sync.Mutex
	tables   []statedb.RWTable[*acct]
	total    int64
	commits  []atomic.Int64 // committed increments per initial table
	lastRev  []atomic.Uint64
	viols    chan violation
	progress atomic.Int64
}

func (w *world) fail(prop, sig, format string, args ...any) {
	select {
	case w.viols <- violation{prop, sig, fmt.Sprintf(format, args...)}:
	default:
	}
}

func runStress(c Case) []violation {
	w := &world{db: statedb.New(), viols: make(chan violation, 64)}
	n := max(2, c.NTables)
	w.commits = make([]atomic.Int64, n)
	w.lastRev = make([]atomic.Uint64, n)
	for i := 0; i < n; i++ {
		t, err := statedb.NewTable[*acct](w.db, fmt.Sprintf("t%d", i), acctIndex)
		if err != nil {
			panic(err)
		}
		w.tables = append(w.tables, t)
		wtxn := w.db.WriteTxn(t)
		t.Insert(wtxn, &acct{ID: "acct", Bal: 100})
		w.lastRev[i].Store(t.Revision(wtxn))
		wtxn.Commit()
		w.total += 100
	}
	// writers, readers and iterator goroutines only use the initial tables: a
	// fixed slice that the registrars never touch
	base := append([]statedb.RWTable[*acct](nil), w.tables...)
	w.db.Start()
	defer w.db.Stop()
	var wg sync.WaitGroup
	stopReaders := make(chan struct{})
	guard := func(f func()) {
		defer wg.Done()
		defer func() {
			if r := recover(); r != nil {
				buf := make([]byte, 2048)
				buf = buf[:runtime.Stack(buf, false)]
				w.fail("C05", "panic", "panic in the code under test: %v\n%s", r, buf)
			}
		}()
		f()
	}
	// writers
	for wi, list := range c.Writers {
		wg.Add(1)
		go guard(func() {
			var metas []statedb.TableMeta
			var idxs []int
			seen := map[int]bool{}
			for _, ti := range list {
				ti = ((ti % n) + n) % n
				metas = append(metas, base[ti])
				if !seen[ti] {
					seen[ti] = true
					idxs = append(idxs, ti)
				}
			}
			for k := 0; k < c.TxnsEach; k++ {
				if !func() bool {
					wtxn := w.db.WriteTxn(metas...)
					defer wtxn.Abort() // no-op after Commit; releases the locks if the code under test panics
					accts := make([]*acct, len(idxs))
					for i, ti := range idxs {
						t := base[ti]
						// C09: the revision a writer finds is the one the previous holder left
						if rev, last := t.Revision(wtxn), w.lastRev[ti].Load(); rev != last {
							w.fail("C09", "revision-not-continuous", "writer %d finds table %s at revision %d but the previous writer of that table left it at %d", wi, t.Name(), rev, last)
						}
						cur, _, ok := t.Get(wtxn, acctIndex.Query("acct"))
						if !ok {
							w.fail("C05", "lost-object", "writer %d: the account object of %s disappeared", wi, t.Name())
							return false
						}
						// C05: serialised writers see every earlier committed increment
						if want := w.commits[ti].Load(); int64(cur.Cnt) != want {
							w.fail("C05", "stale-read", "writer %d holds table %s and reads counter %d, but %d increments were committed before it got the table", wi, t.Name(), cur.Cnt, want)
						}
						nv := *cur
						nv.Cnt++
						accts[i] = &nv
					}
					if len(accts) >= 2 {
						accts[0].Bal--
						accts[1].Bal++
					}
					abort := c.AbortEvery > 0 && (k+1)%c.AbortEvery == 0
					for i, ti := range idxs {
						t := base[ti]
						t.Insert(wtxn, accts[i])
						if !abort {
							w.lastRev[ti].Store(t.Revision(wtxn))
						}
					}
					if abort {
						wtxn.Abort()
					} else {
						// count before Commit returns: the next holder of the table can only
						// run after this Commit released the lock
						for _, ti := range idxs {
							w.commits[ti].Add(1)
						}
						wtxn.Commit()
					}
					w.progress.Add(1)
					return true
				}() {
					return
				}
			}
		})
	}
	// registrars
	for ri := 0; ri < c.Registrars; ri++ {
		wg.Add(1)
		go guard(func() {
			for k := 0; k < c.RegEach; k++ {
				t, err := statedb.NewTable[*acct](w.db, fmt.Sprintf("r%dx%d", ri, k), acctIndex)
				if err != nil {
					w.fail("C05", "newtable", "NewTable failed: %v", err)
					return
				}
				w.mu.Lock()
				w.tables = append(w.tables, t)
				w.mu.Unlock()
				w.progress.Add(1)
				runtime.Gosched()
			}
		})
	}
	// iterator goroutines (C10: creating/closing iterators and the collector never deadlock)
	for ii := 0; ii < c.Iterators; ii++ {
		wg.Add(1)
		go guard(func() {
			t := base[ii%n]
			for k := 0; k < 20; k++ {
				wtxn := w.db.WriteTxn(t)
				it, err := func() (statedb.ChangeIterator[*acct], error) {
					defer wtxn.Abort()
					it, err := t.Changes(wtxn)
					wtxn.Commit()
					return it, err
				}()
				if err != nil {
					w.fail("C07", "changes", "Changes failed: %v", err)
					return
				}
				var last statedb.Revision
				for round := 0; round < 3; round++ {
					changes, _ := it.Next(w.db.ReadTxn())
					for _, rev := range changes {
						if rev <= last {
							w.fail("C07", "order", "change iterator delivered revision %d after %d", rev, last)
						}
						last = rev
					}
				}
				it.Close()
				w.progress.Add(1)
			}
		})
	}
	// readers
	var rwg sync.WaitGroup
	for ri := 0; ri < c.Readers; ri++ {
		rwg.Add(1)
		go func() {
			defer rwg.Done()
			defer func() {
				if r := recover(); r != nil {
					w.fail("C05", "panic", "reader panicked: %v", r)
				}
			}()
			for {
				select {
				case <-stopReaders:
					return
				default:
				}
				rtxn := w.db.ReadTxn()
				sum := 0
				revs := make([]statedb.Revision, n)
				for i := 0; i < n; i++ {
					a, _, ok := base[i].Get(rtxn, acctIndex.Query("acct"))
					if ok {
						sum += a.Bal
					}
					revs[i] = base[i].Revision(rtxn)
				}
				if int64(sum) != w.total {
					w.fail("C02", "sum-not-conserved", "a snapshot shows a cross-table balance sum of %d, every committed state has %d: a multi-table commit was seen partially", sum, w.total)
				}
				runtime.Gosched()
				// C01: the snapshot answers the same later on
				sum2 := 0
				for i := 0; i < n; i++ {
					a, _, ok := base[i].Get(rtxn, acctIndex.Query("acct"))
					if ok {
						sum2 += a.Bal
					}
					if r := base[i].Revision(rtxn); r != revs[i] {
						w.fail("C01", "snapshot-changed", "a retained snapshot reported revision %d of %s, later %d", revs[i], base[i].Name(), r)
					}
				}
				if sum2 != sum {
					w.fail("C01", "snapshot-changed", "a retained snapshot answered differently when re-read (%d then %d)", sum, sum2)
				}
			}
		}()
	}
	// watchers (C06): a goroutine woken by a watch channel must find a newer
	// table revision than the snapshot the channel came from
	for wi := 0; wi < c.Readers; wi++ {
		rwg.Add(1)
		go func() {
			defer rwg.Done()
			defer func() {
				if r := recover(); r != nil {
					w.fail("C05", "panic", "watcher panicked: %v", r)
				}
			}()
			t := base[wi%n]
			for {
				rtxn := w.db.ReadTxn()
				rev := t.Revision(rtxn)
				var watch <-chan struct{}
				switch wi % 3 {
				case 0:
					_, watch = t.AllWatch(rtxn)
				case 1:
					_, _, watch, _ = t.GetWatch(rtxn, acctIndex.Query("acct"))
				default:
					_, watch = t.LowerBoundWatch(rtxn, statedb.ByRevision[*acct](0))
				}
				select {
				case <-stopReaders:
					return
				case <-watch:
				}
				if now := t.Revision(w.db.ReadTxn()); now <= rev {
					w.fail("C06", "early-wakeup", "a goroutine woken by the watch channel of a query on %s (snapshot revision %d) takes a snapshot and still sees revision %d", t.Name(), rev, now)
				}
			}
		}()
	}
	// watchdog (C10)
	done := make(chan struct{})
	go func() { wg.Wait(); close(done) }()
	last, lastChange := int64(-1), time.Now()
	ticker := time.NewTicker(200 * time.Millisecond)
loop:
	for {
		select {
		case <-done:
			break loop
		case <-ticker.C:
			if p := w.progress.Load(); p != last {
				last, lastChange = p, time.Now()
			} else if time.Since(lastChange) > 20*time.Second {
				buf := make([]byte, 1<<20)
				buf = buf[:runtime.Stack(buf, true)]
				w.fail("C10", "no-progress", "no transaction completed for 20 s; goroutine dump:\n%s", firstN(string(buf), 6000))
				break loop
			}
		}
	}
	ticker.Stop()
	close(stopReaders)
	rwg.Wait()
	select {
	case <-done:
		// final state
		func() {
			defer func() {
				if r := recover(); r != nil {
					w.fail("C05", "lost-table", "final probe panicked: %v (a registered table was lost from the root)", r)
				}
			}()
			rtxn := w.db.ReadTxn()
			for i := 0; i < n; i++ {
				a, _, ok := w.tables[i].Get(rtxn, acctIndex.Query("acct"))
				cnt := -1
				if ok {
					cnt = a.Cnt
				}
				if want := w.commits[i].Load(); int64(cnt) != want {
					w.fail("C05", "lost-write", "table %s: counter is %d after all writers finished but %d transactions committed an increment", w.tables[i].Name(), cnt, want)
				}
			}
			if got := len(w.db.GetTables(rtxn)); got != len(w.tables) {
				w.fail("C05", "lost-table", "the root holds %d tables, %d were registered", got, len(w.tables))
			}
			for _, t := range w.tables[n:] {
				wtxn := w.db.WriteTxn(t)
				t.Insert(wtxn, &acct{ID: "probe"})
				r2 := wtxn.Commit()
				if _, _, ok := t.Get(r2, acctIndex.Query("probe")); !ok {
					w.fail("C05", "lost-table", "registered table %s cannot be written and read back", t.Name())
				}
			}
		}()
	default:
	}
	close(w.viols)
	var out []violation
	for v := range w.viols {
		out = append(out, v)
	}
	return out
}

func firstN(s string, n int) string {
	if len(s) > n {
		return s[:n]
	}
	return s
}

func genCase(t *rapid.T) Case {
	c := Case{
		NTables:    rapid.IntRange(2, 4).Draw(t, "nTables"),
		TxnsEach:   rapid.SampledFrom([]int{50, 200, 500}).Draw(t, "txnsEach"),
		AbortEvery: rapid.SampledFrom([]int{0, 3, 7}).Draw(t, "abortEvery"),
		Readers:    rapid.IntRange(1, 4).Draw(t, "readers"),
		Registrars: rapid.IntRange(0, 2).Draw(t, "registrars"),
		RegEach:    rapid.SampledFrom([]int{5, 20, 60}).Draw(t, "regEach"),
		Iterators:  rapid.IntRange(0, 2).Draw(t, "iterators"),
	}
	nw := rapid.IntRange(2, 6).Draw(t, "writers")
	for i := 0; i < nw; i++ {
		c.Writers = append(c.Writers, rapid.SliceOfN(rapid.IntRange(0, 3), 1, 3).Draw(t, "tables"))
	}
	return c
}

const rule = "free-running goroutines without schedule control (real parallelism on all cores; built with -race in the thorough tier): 2-6 writers each running 50-500 write transactions over generated table lists (read counter, write counter+1, transfer between two tables, every n-th aborted), 1-4 readers re-reading snapshots, 0-2 goroutines registering 5-60 new tables meanwhile, 0-2 goroutines creating/consuming/closing change iterators, the graveyard worker running. Interleaving-independent invariants: the counter a writer reads equals the increments committed before it got the table; the revision it finds is the one the previous holder left; every snapshot shows the conserved balance sum and answers the same when re-read; a goroutine woken by an All/Get/LowerBound watch channel finds a newer table revision; final counters equal committed increments; every registered table is in the root and usable; progress watchdog. Non-trivial = a round with >=2 writers sharing a table and a registrar or reader running; distinct by case encoding (each case is one stress round)."

func stressTest(t *testing.T, prop, test string) {
	var c Case
	report := func(f vk.Fataler, c Case, vs []violation) {
		for _, v := range vs {
			if v.prop == prop {
				vk.Fail(f, prop, test, c, v.sig, "%s", v.msg)
			}
		}
	}
	if vk.Replaying() {
		if vk.Replay(prop, test, &c) {
			for i := 0; i < 20; i++ {
				report(t, c, runStress(c))
			}
		}
		return
	}
	rec := vk.NewRecorder(prop, test, rule)
	defer rec.Flush()
	cur := os.Getenv("VERIF_REPLAY_DIR")
	abandoned := false
	rapid.Check(t, func(rt *rapid.T) {
		c := genCase(rt)
		if abandoned {
			// an earlier round hung for a reason another property owns: its
			// goroutines are still blocked; do not pile up more 20 s rounds
			return
		}
		// leave the case on disk: a data race report or a hang kills the process
		if cur != "" {
			b, _ := json.Marshal(vk.ReplayFile{Property: prop, Test: test, Message: "stress round in progress when the process died (data race report or hang)", Sig: "process-died", Case: mustJSON(c)})
			os.MkdirAll(cur, 0o755)
			os.WriteFile(filepath.Join(cur, prop+"-"+test+"-inprogress.json"), b, 0o644)
		}
		vs := runStress(c)
		shared := false
		seen := map[int]bool{}
		for _, l := range c.Writers {
			for _, ti := range l {
				if seen[ti%c.NTables] {
					shared = true
				}
			}
			for _, ti := range l {
				seen[ti%c.NTables] = true
			}
		}
		var classes []string
		for _, v := range vs {
			if v.prop != prop {
				classes = append(classes, "foreign_"+v.prop+"_"+v.sig)
				if v.sig == "no-progress" {
					abandoned = true
				}
			}
		}
		if c.Registrars > 0 {
			classes = append(classes, "registrar")
		}
		if c.Iterators > 0 {
			classes = append(classes, "iterators")
		}
		rec.Case(c, shared && len(c.Writers) >= 2, classes...)
		report(rt, c, vs)
	})
	if cur != "" {
		os.Remove(filepath.Join(cur, prop+"-"+test+"-inprogress.json"))
	}
}

func mustJSON(v any) json.RawMessage {
	b, err := json.Marshal(v)
	if err != nil {
		panic(err)
	}
	return b
}

func TestC01Stress(t *testing.T) { stressTest(t, "C01", "TestC01Stress") }
func TestC02Stress(t *testing.T) { stressTest(t, "C02", "TestC02Stress") }
func TestC05Stress(t *testing.T) { stressTest(t, "C05", "TestC05Stress") }
func TestC06Stress(t *testing.T) { stressTest(t, "C06", "TestC06Stress") }
func TestC09Stress(t *testing.T) { stressTest(t, "C09", "TestC09Stress") }
func TestC10Stress(t *testing.T) { stressTest(t, "C10", "TestC10Stress") }
