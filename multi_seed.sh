#!/bin/bash
# exploration helper for `vp run --with-repo`: quick tier of every property at several seeds (false-alarm hunt)
export VERIF_REPO=${VP_RUN_REPO:-/repo}
for seed in ${SEEDS:-2 3 4 5 6 7}; do
  for p in $(./check --list); do
    out=$(VERIF_SEED=$seed ./check $p quick 2>&1 | grep -E "^(VIOLATION|OK|INCONCLUSIVE|KNOWN|  )" | head -3 | cut -c1-500)
    echo "seed=$seed $out"
  done
done
