#!/bin/bash
# usage: seedverify.sh <seed-id e.g. C07> <name e.g. C07-gc-rev0>
# Verifies a sub-agent's seeded defect in its scratch worktree and stores it under /verif/seeded/<name>/.
id=$1; name=$2
wt=/tmp/seed/$id; out=/tmp/seed/$id.out
export PATH=/root/go/pkg/mod/golang.org/toolchain@v0.0.1-go1.25.0.linux-amd64/bin:$PATH GOTOOLCHAIN=local GOFLAGS=-mod=mod GOPROXY=off GOSUMDB=off
set -e
demo=$(python3 -c "import json;print(json.load(open('$out/meta.json'))['demo_test'])")
pkg=$(python3 -c "import json;print(json.load(open('$out/meta.json'))['demo_pkg_dir'])")
cd $wt
git checkout -q -- go.mod go.sum 2>/dev/null || true
echo "== worktree status"; git status --short
# fresh scratch worktree from the same commit to verify patch applies cleanly
base=$(git rev-parse HEAD)
rm -rf /tmp/seedchk.$id; git -C /repo worktree add -q --detach /tmp/seedchk.$id $base
cd /tmp/seedchk.$id
git apply $out/patch.diff
cp $out/*_test.go $pkg/
echo "== with change: suite (demo skipped)"
go build ./... && go test -vet=off -count=1 -skip "^${demo}\$" ./... 2>&1 | grep -v "no test files" | tail -8
echo "== with change: demo must FAIL"
if go test -vet=off -count=1 -run "^${demo}\$" ./$pkg/ > /tmp/seedchk.$id.log 2>&1; then echo "DEMO PASSED WITH CHANGE (bad)"; else echo "demo fails as expected"; tail -5 /tmp/seedchk.$id.log | cut -c1-300; fi
git apply -R $out/patch.diff
echo "== without change: demo must PASS"
go test -vet=off -count=1 -run "^${demo}\$" ./$pkg/ 2>&1 | tail -3
cd /; git -C /repo worktree remove --force /tmp/seedchk.$id
mkdir -p /verif/seeded/$name
cp $out/patch.diff $out/meta.json $out/*_test.go /verif/seeded/$name/
echo "stored in /verif/seeded/$name"
