#!/bin/bash
# exploration helper for `vp run --with-repo`: thorough tier of every property at VERIF_SEED=$TSEED
export VERIF_REPO=${VP_RUN_REPO:-/repo}
for p in ${PROPS:-$(./check --list)}; do
  echo "=== $p $(date +%T)"; VERIF_SEED=${TSEED:-2} ./check $p thorough 2>&1 | tail -4 | cut -c1-600
done
