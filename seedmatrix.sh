#!/bin/bash
# Applies every seeded defect to /repo, runs the checks of its property (plus related ones), restores the tree,
# and writes seeded/RESULTS.md and the "checks_run" field of each meta.json.
ROOT=$(cd $(dirname $0) && pwd); REPO=${VP_RUN_REPO:-/repo}; export VERIF_REPO=$REPO
cd $ROOT || exit 9
tier=${1:-quick}
declare -A extra=( [C01]="C13" [C02]="C08" [C03]="C09" [C06]="C12" [C07]="C08" [C08]="C07" [C09]="C03" [C12]="C06" [C14]="C15" [C15]="C14" [C19]="C02" [C10]="C05" [C05]="C10" )
out=${OUT:-seeded/RESULTS.md}
echo "# Seeded changes vs. checks ($tier tier, VERIF_SEED=${VERIF_SEED:-1})" > $out
echo >> $out
echo "| seeded change | property | check | outcome |" >> $out
echo "|---|---|---|---|" >> $out
for d in seeded/*/; do
  name=$(basename $d)
  [ -f $d/patch.diff ] || continue
  prop=$(python3 -c "import json;print(json.load(open('$d/meta.json'))['property'])")
  checks="$prop ${extra[$prop]}"
  [ -n "$OWN_ONLY" ] && checks="$prop"
  [ -n "$ONLY_NEW" ] && grep -q "\"$tier\"" $d/meta.json && continue
  cd $REPO
  if ! git diff --quiet; then echo "repo dirty"; exit 9; fi
  if ! git apply $ROOT/$d/patch.diff 2>/dev/null; then
    echo "| $name | $prop | - | patch does not apply to the current /repo HEAD |" >> $ROOT/$out; cd $ROOT; continue
  fi
  cd $ROOT
  res=""
  for c in $checks; do
    line=$(./check $c $tier 2>&1 | grep -E "^(VIOLATION|OK|INCONCLUSIVE)" | head -1 | cut -c1-120)
    verdict=$(echo "$line" | awk '{print $1}')
    echo "| $name | $prop | $c | $verdict |" >> $out
    res="$res $c:$verdict"
    echo "$name $c $verdict"
  done
  cd $REPO && git checkout -- . ; cd $ROOT
  python3 - "$d" "$res" "$tier" <<'PY'
import json,sys
d,res,tier=sys.argv[1:4]
m=json.load(open(d+'/meta.json'))
m.setdefault('checks_run',{})[tier]=res.strip()
json.dump(m,open(d+'/meta.json','w'),indent=1)
PY
done
git -C $ROOT checkout -- evidence 2>/dev/null
cat $out
