#!/bin/sh
# Builds every harness test binary once from files on disk (offline) so that
# the first check does not pay the full compile.
set -e
cd "$(dirname "$0")"
MODCACHE=$(go env GOMODCACHE 2>/dev/null || echo /root/go/pkg/mod)
TC="$MODCACHE/golang.org/toolchain@v0.0.1-go1.25.0.linux-amd64/bin"
if [ -d "$TC" ]; then PATH="$TC:$PATH"; export PATH GOTOOLCHAIN=local; fi
export GOFLAGS=-mod=mod GOPROXY=off GOSUMDB=off
mkdir -p .work/bin evidence replays
cd harness
for p in $(ls -d t*/ 2>/dev/null | tr -d /); do
  go test -c -tags verif -o ../.work/bin/$p.test ./$p
done
echo setup done
